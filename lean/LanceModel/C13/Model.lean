import LanceModel.Table.Basic
/-
C13 model: compaction (and the `Rewrite` commit in general) never changes table contents.

Mirrors (pinned commit of /repo):
  rust/lance/src/dataset/optimize.rs            plan_compaction (candidacy, the binning loop, CandidateBin::{is_noop,
                                                split_for_size}), rewrite_files (scan live rows in order, write with
                                                max_rows_per_file = target_rows_per_fragment, reserve_fragment_ids,
                                                rechunk_stable_row_ids, recalc_versions_for_rewritten_fragments),
                                                commit_compaction (row id map union / frag reuse groups / fragment id
                                                reservation with stable row ids)
  rust/lance/src/dataset/optimize/remapping.rs  transpose_row_addrs (zip of the captured old addresses with the new
                                                physical addresses; MissingAddrs modelled by its result: every physical
                                                address of the old fragments that was not captured maps to "deleted")
  rust/lance/src/dataset/transaction.rs         Transaction::build_manifest, `Operation::Rewrite` arm:
                                                handle_rewrite_fragments (+ fragments_with_ids), the final
                                                `sort_by_key(id)`, recalculate_fragment_bitmap, handle_rewrite_indices,
                                                replacement of the fragment reuse index, update_max_fragment_id
  rust/lance-index/src/frag_reuse.rs            FragReuseIndex::remap_fragment_bitmap (applied by load_indices)

A table is a list of fragments; a fragment is an id and its physical rows, each with a deleted flag and — with
stable row ids — its row id and created / last-updated versions.  A data file is the list of rows written to it
(file encodings: C25–C27; the splitting of a write into files: C11).
-/
namespace LanceModel.C13
open LanceModel.Table

/-- one physical row of a fragment -/
structure PRow where
  data : Row
  /-- in the fragment's deletion vector -/
  del : Bool
  /-- stable row id (0 when the table has no stable row ids: the row id is then the address) -/
  rid : Nat
  /-- `_row_created_at_version` / `_row_last_updated_at_version` (0 without stable row ids) -/
  cr : Nat
  up : Nat
  deriving DecidableEq, Repr

structure Frag where
  id : Nat
  rows : List PRow
  deriving DecidableEq, Repr

/-- rows a scan of the fragment returns -/
def Frag.live (f : Frag) : List PRow := f.rows.filter (fun r => !r.del)
/-- `Fragment::physical_rows` -/
def Frag.physical (f : Frag) : Nat := f.rows.length
/-- `FragmentMetrics::num_rows` = physical_rows - num_deletions -/
def Frag.numRows (f : Frag) : Nat := f.live.length
/-- `DeletionFile::num_deleted_rows` -/
def Frag.numDel (f : Frag) : Nat := f.rows.length - f.live.length

/-- the abstraction function: an ordered scan (fragments in manifest order, deleted rows skipped).  Every element
    carries the row's data AND its row id / created / updated versions, so equality of `visible` is equality of all
    of them. -/
def visible (fs : List Frag) : List PRow := fs.flatMap Frag.live

/-- `RowAddress::new_from_parts(id, off)`; FRAGMENT_SIZE = 2^32 -/
def addr (id off : Nat) : Nat := id * 4294967296 + off

/-- offsets of the live rows of a fragment, counting from `i` -/
def liveOffsets : List PRow → Nat → List Nat
  | [], _ => []
  | r :: rs, i => if r.del then liveOffsets rs (i + 1) else i :: liveOffsets rs (i + 1)

def delOffsets : List PRow → Nat → List Nat
  | [], _ => []
  | r :: rs, i => if r.del then i :: delOffsets rs (i + 1) else delOffsets rs (i + 1)

/-- `_rowaddr` of the rows a scan returns, in scan order (what `make_rowid_capture_stream` captures in rewrite_files) -/
def Frag.liveAddrs (f : Frag) : List Nat := (liveOffsets f.rows 0).map (addr f.id)
def Frag.delAddrs (f : Frag) : List Nat := (delOffsets f.rows 0).map (addr f.id)
def visibleAddrs (fs : List Frag) : List Nat := fs.flatMap Frag.liveAddrs

/-- the physical row stored at an address -/
def rowAt (fs : List Frag) (a : Nat) : Option PRow :=
  match fs.find? (fun f => f.id == a / 4294967296) with
  | some f => f.rows[a % 4294967296]?
  | none => none

/-! ## rewrite_files -/

/-- the data files `write_fragments_internal` produces for a stream of rows with `max_rows_per_file = n` (2.x files:
    consecutive chunks of exactly `n` rows, the last one shorter — `LanceModel.C11.split_concat`); fuel = length. -/
def chunkFuel {α : Type} (n : Nat) : Nat → List α → List (List α)
  | 0, _ => []
  | fuel + 1, l => if l.isEmpty then [] else l.take n :: chunkFuel n fuel (l.drop n)

def chunk {α : Type} (n : Nat) (l : List α) : List (List α) := chunkFuel n l.length l

/-- rewrite_files: `scanner.with_fragments(olds).scan_in_order(true)` piped into `write_fragments_internal`; with
    stable row ids `rechunk_stable_row_ids` (mask the deleted ids, rechunk to the new physical row counts) and
    `recalc_versions_for_rewritten_fragments` (same for the created / updated version runs) — row by row that is:
    every live row keeps its (rid, cr, up).  New fragments have no deletions.  Ids are given by the caller (0 = not
    yet assigned). -/
def rewriteTask (target : Nat) (ids : List Nat) (olds : List Frag) : List Frag :=
  List.zipWith (fun i c => ({ id := i, rows := c } : Frag)) ids (chunk target (visible olds))

/-- number of new fragments a task produces -/
def taskOutCount (target : Nat) (olds : List Frag) : Nat := (chunk target (visible olds)).length

/-- remapping.rs `transpose_row_addrs`: `row_addrs.iter().zip(new_addrs)` with the captured addresses in ascending
    order (a RoaringTreemap) and the new addresses = every physical address of the new fragments in order; every
    other physical address of the old fragments maps to `none` (MissingAddrs).  The plan hands fragments over in
    ascending id order (manifests are sorted by id), so ascending address order = scan order. -/
def transpose (olds news : List Frag) : List (Nat × Option Nat) :=
  List.zip (visibleAddrs olds) ((visibleAddrs news).map some) ++ (olds.flatMap Frag.delAddrs).map (fun a => (a, none))

/-! ## plan_compaction -/

structure Opts where
  /-- target_rows_per_fragment (≥ 1) -/
  target : Nat
  materialize : Bool
  /-- materialize_deletions_threshold = thNum / thDen as f32 (thDen ≥ 1, small): for physical rows and deletion counts
      below 2^20 the f32 comparison `dels as f32 / rows as f32 > threshold` is exactly `dels * thDen > thNum * rows` -/
  thNum : Nat
  thDen : Nat
  defer : Bool
  deriving DecidableEq, Repr

inductive Cand where
  | withNeighbors | itself
  deriving DecidableEq, Repr

/-- plan_compaction, the `let candidacy = …` expression -/
def candidacy (o : Opts) (f : Frag) : Option Cand :=
  if o.materialize && decide (f.numDel * o.thDen > o.thNum * f.physical) then some .itself
  else if f.physical < o.target then some .withNeighbors
  else none

/-- `indices_containing_frag`: positions of the index fragment bitmaps that contain the id -/
def indicesContaining (ixs : List (List Nat)) (id : Nat) : List Nat :=
  (ixs.zipIdx).filterMap fun (b, i) => if b.contains id then some i else none

structure Bin where
  frags : List Frag
  cands : List Cand
  indices : List Nat
  deriving Repr

/-- the `while let Some(res) = fragment_metrics.next()` loop + the final flush; `cur` = `current_bin`; returns the
    candidate bins in order -/
def binsFrom (o : Opts) (ixs : List (List Nat)) : Option Bin → List Frag → List Bin
  | none, [] => []
  | some b, [] => [b]
  | cur, f :: fs =>
    match candidacy o f, cur with
    | none, none => binsFrom o ixs none fs
    | some c, none => binsFrom o ixs (some ⟨[f], [c], indicesContaining ixs f.id⟩) fs
    | some c, some b =>
      if b.indices = indicesContaining ixs f.id then
        binsFrom o ixs (some ⟨b.frags ++ [f], b.cands ++ [c], b.indices⟩) fs
      else b :: binsFrom o ixs (some ⟨[f], [c], indicesContaining ixs f.id⟩) fs
    | none, some b => b :: binsFrom o ixs none fs

/-- `CandidateBin::is_noop` -/
def Bin.isNoop (b : Bin) : Bool :=
  match b.frags, b.cands with
  | [], _ => true
  | [_], [c] => c == .withNeighbors
  | _, _ => false

/-- `while bin_row_count < min_num_rows && bin_len < len` -/
def prefixLen (min : Nat) : List Nat → Nat → Nat
  | [], _ => 0
  | c :: cs, acc => if acc < min then 1 + prefixLen min cs (acc + c) else 0

/-- `CandidateBin::split_for_size` on the fragments and their live-row counts (fuel = number of fragments) -/
def splitForSize (min : Nat) : Nat → List Frag → List (List Frag)
  | 0, fs => [fs]
  | fuel + 1, fs =>
    if natSum ((fs.drop (prefixLen min (fs.map Frag.numRows) 0)).map Frag.numRows) ≥ min
        ∧ 0 < prefixLen min (fs.map Frag.numRows) 0 then
      fs.take (prefixLen min (fs.map Frag.numRows) 0)
        :: splitForSize min fuel (fs.drop (prefixLen min (fs.map Frag.numRows) 0))
    else [fs]

/-- plan_compaction: the tasks (each the list of fragments it rewrites) -/
def plan (o : Opts) (ixs : List (List Nat)) (fs : List Frag) : List (List Frag) :=
  ((binsFrom o ixs none fs).filter (fun b => !b.isNoop)).flatMap
    (fun b => splitForSize o.target b.frags.length b.frags)

/-! ## build_manifest, `Operation::Rewrite` -/

structure Group where
  olds : List Frag
  news : List Frag
  deriving Repr

inductive Err where
  | conflict | invalid | panic
  deriving DecidableEq, Repr

def findIdx (fs : List Frag) (id : Nat) : Option Nat :=
  match fs with
  | [] => none
  | f :: rest => if f.id = id then some 0 else (findIdx rest id).map (· + 1)

/-- the `loop` verifying that old_fragments is a contiguous run: `rest` = final_fragments after the start position,
    `os` = ids of old_fragments[1..].  `none` = index out of bounds (Rust panics). -/
def checkRun : List Frag → List Nat → Option Bool
  | _, [] => some true
  | [], _ :: _ => none
  | f :: fs, o :: os => if f.id ≠ o then some false else checkRun fs os

/-- `fragments_with_ids`: an id of 0 means "not assigned yet" -/
def assignIds : List Frag → Nat → List Frag × Nat
  | [], n => ([], n)
  | f :: fs, n =>
    if f.id = 0 then (({ f with id := n } : Frag) :: (assignIds fs (n + 1)).1, (assignIds fs (n + 1)).2)
    else (f :: (assignIds fs n).1, (assignIds fs n).2)

/-- one iteration of handle_rewrite_fragments -/
def applyGroup (final : List Frag) (g : Group) (next : Nat) : Except Err (List Frag × Nat) :=
  match g.olds with
  | [] => .error .panic
  | o :: os =>
    match findIdx final o.id with
    | none => .error .conflict
    | some start =>
      match checkRun (final.drop (start + 1)) (os.map Frag.id) with
      | none => .error .panic
      | some true =>
        .ok (final.take start ++ (assignIds g.news next).1 ++ final.drop (start + g.olds.length), (assignIds g.news next).2)
      | some false =>
        .ok (final.filter (fun f => !(g.olds.map Frag.id).contains f.id) ++ (assignIds g.news next).1,
             (assignIds g.news next).2)

/-- handle_rewrite_fragments -/
def handleRewrite : List Frag → List Group → Nat → Except Err (List Frag × Nat)
  | final, [], next => .ok (final, next)
  | final, g :: gs, next =>
    match applyGroup final g next with
    | .error e => .error e
    | .ok (final', next') => handleRewrite final' gs next'

/-- stable insertion by id (`final_fragments.sort_by_key(|frag| frag.id)`) -/
def insertById (x : Frag) : List Frag → List Frag
  | [] => [x]
  | y :: t => if x.id ≤ y.id then x :: y :: t else y :: insertById x t

def sortById (l : List Frag) : List Frag := l.foldr insertById []

/-- the fragment list of the new manifest -/
def rewriteFragments (final : List Frag) (gs : List Group) (next : Nat) : Except Err (List Frag) :=
  match handleRewrite final gs next with
  | .error e => .error e
  | .ok (final', _) => .ok (sortById final')

/-- `recalculate_fragment_bitmap` over the groups' (old ids, new ids) -/
def recalcBitmap (old : List Nat) : List (List Nat × List Nat) → List Nat → Except Err (List Nat)
  | [], acc => .ok acc
  | (olds, news) :: gs, acc =>
    if olds.any old.contains then
      if olds.all old.contains then recalcBitmap old gs (acc.filter (fun x => !olds.contains x) ++ news)
      else .error .invalid
    else recalcBitmap old gs acc

/-- `FragReuseIndex::remap_fragment_bitmap` for one version's groups (membership is tested on the evolving bitmap;
    a partially covered group is an error that `load_indices` unwraps: panic) -/
def remapBitmapGroups : List (List Nat × List Nat) → List Nat → Except Err (List Nat)
  | [], acc => .ok acc
  | (olds, news) :: gs, acc =>
    if olds.any acc.contains then
      if olds.all acc.contains then remapBitmapGroups gs (acc.filter (fun x => !olds.contains x) ++ news)
      else .error .panic
    else remapBitmapGroups gs acc

def remapBitmap : List (List (List Nat × List Nat)) → List Nat → Except Err (List Nat)
  | [], acc => .ok acc
  | v :: vs, acc =>
    match remapBitmapGroups v acc with
    | .error e => .error e
    | .ok acc' => remapBitmap vs acc'

/-! ## the table and its operations (what the driver runs) -/

structure Table where
  version : Nat
  frags : List Frag
  /-- `Manifest::max_fragment_id` -/
  maxFrag : Nat
  stable : Bool
  nextRowId : Nat
  /-- fragment bitmap of the BTree index on c1 as stored in the manifest -/
  idx : Option (List Nat)
  /-- the fragment reuse index: its versions (groups of old ids, new ids) and its own fragment bitmap -/
  fri : List (List (List Nat × List Nat))
  friBitmap : Option (List Nat)
  deriving Repr

def maxId (fs : List Frag) (m : Nat) : Nat := fs.foldl (fun a f => max a f.id) m

/-- number the rows of an append: `assign_row_ids` + `build_version_meta` -/
def mkRows (stable : Bool) (version : Nat) : List Row → Nat → List PRow
  | [], _ => []
  | r :: rs, n =>
    (if stable then ⟨r, false, n, version, version⟩ else ⟨r, false, 0, 0, 0⟩) :: mkRows stable version rs (n + 1)

def mkFrags : List (List PRow) → Nat → List Frag
  | [], _ => []
  | c :: cs, id => ⟨id, c⟩ :: mkFrags cs (id + 1)

/-- `Dataset::write(Create)` of one batch with `max_rows_per_file = f` -/
def create (stable : Bool) (f : Nat) (rows : List Row) : Table :=
  let frags := mkFrags (chunk f (mkRows stable 1 rows 0)) 0
  { version := 1, frags := frags, maxFrag := frags.length - 1, stable := stable,
    nextRowId := if stable then rows.length else 0, idx := none, fri := [], friBitmap := none }

/-- `Dataset::write(Append)` -/
def append (t : Table) (f : Nat) (rows : List Row) : Table :=
  let frags := mkFrags (chunk f (mkRows t.stable (t.version + 1) rows t.nextRowId)) (t.maxFrag + 1)
  { t with version := t.version + 1, frags := t.frags ++ frags, maxFrag := maxId frags t.maxFrag,
           nextRowId := if t.stable then t.nextRowId + rows.length else t.nextRowId }

/-- `Dataset::delete("c0 IN (keys)")`: extend the deletion vectors; a fragment left without live rows is dropped -/
def markDeleted (keys : List Int) (f : Frag) : Frag :=
  { f with rows := f.rows.map fun r =>
      match r.data.head? with
      | some (some k) => if keys.contains k then { r with del := true } else r
      | _ => r }

def delete (t : Table) (keys : List Int) : Table :=
  { t with version := t.version + 1,
           frags := (t.frags.map (markDeleted keys)).filter (fun f => f.numRows > 0) }

/-- `create_index(["c1"], BTree, "i1", replace = true)`: covers every fragment of the version it was built on -/
def createIndex (t : Table) : Table :=
  { t with version := t.version + 1, idx := some (t.frags.map Frag.id) }

/-- the index fragment bitmaps as `load_indices` shows them (remapped through the fragment reuse index), in
    manifest order restricted to the ones that exist; `none` = load_indices panics -/
def effBitmaps (t : Table) : Option (List (List Nat)) :=
  let go (b : Option (List Nat)) : Option (List (List Nat)) :=
    match b with
    | none => some []
    | some b => match remapBitmap t.fri b with
      | .ok b' => some [b']
      | .error _ => none
  match go t.idx, go t.friBitmap with
  | some a, some b => some (a ++ b)
  | _, _ => none

/-- one executed task: what `CompactionTask::execute` returns -/
structure Done where
  olds : List Frag
  news : List Frag
  deriving Repr

/-- execute the tasks `order` (indices into the plan) one after the other.  Without stable row ids every task
    commits a `ReserveFragments` (version + 1, max_fragment_id + n) and numbers its new fragments; with them the new
    fragments keep id 0.  Returns the results in execution order. -/
def execTasks (o : Opts) (stable : Bool) (tasks : List (List Frag)) :
    List Nat → Nat → Nat → List Done × Nat × Nat
  | [], version, maxFrag => ([], version, maxFrag)
  | k :: ks, version, maxFrag =>
    match tasks[k]? with
    | none => execTasks o stable tasks ks version maxFrag
    | some olds =>
      let n := taskOutCount o.target olds
      if stable then
        let r := execTasks o stable tasks ks version maxFrag
        (⟨olds, rewriteTask o.target (List.replicate n 0) olds⟩ :: r.1, r.2)
      else
        let r := execTasks o stable tasks ks (version + 1) (maxFrag + n)
        (⟨olds, rewriteTask o.target (List.range' (maxFrag + 1) n) olds⟩ :: r.1, r.2)

/-- number fragments left to right from `next` (reserve_fragment_ids inside commit_compaction) -/
def numberGroups : List Done → Nat → List Done
  | [], _ => []
  | d :: ds, next =>
    ⟨d.olds, List.zipWith (fun f i => ({ f with id := i } : Frag)) d.news (List.range' next d.news.length)⟩
      :: numberGroups ds (next + d.news.length)

def idPairs (ds : List Done) : List (List Nat × List Nat) :=
  ds.map fun d => (d.olds.map Frag.id, d.news.map Frag.id)

/-- one index bitmap as `load_indices` shows it; outer `none` = load_indices panics -/
def effOne (t : Table) (b : Option (List Nat)) : Option (Option (List Nat)) :=
  match b with
  | none => some none
  | some b => match remapBitmap t.fri b with
    | .ok b' => some (some b')
    | .error _ => none

/-- `commit_compaction` of the given task results + `build_manifest` of the Rewrite transaction.  The index list a
    commit starts from is `load_indices()`, i.e. the bitmaps already remapped through the fragment reuse index; they
    are written back in that form. -/
def commit (o : Opts) (t : Table) (ds : List Done) : Except Err Table :=
  if ds.isEmpty then .ok t
  else
    let needsRemap := !t.stable && !o.defer
    -- stable row ids: the tasks did not number their fragments, ids are reserved here (one more commit) — since
    -- fix 5bfd7cc also when the remap is deferred (before it the ids stayed 0 in the groups, the bitmaps recorded
    -- fragment 0 and load_indices panicked afterwards)
    let reserve := t.stable
    let total := natSum (ds.map fun d => d.news.length)
    let ds' := if reserve then numberGroups ds (t.maxFrag + 1) else ds
    let version := if reserve then t.version + 1 else t.version
    let maxFrag := if reserve then t.maxFrag + total else t.maxFrag
    let pairs := idPairs ds'
    match effOne t t.idx, effOne t t.friBitmap with
    | none, _ => .error .panic
    | _, none => .error .panic
    | some idxE, some friE =>
    -- which indices remap_indices rewrites: the BTree index if its bitmap meets an affected fragment
    let affected := ds.flatMap fun d => d.olds.map Frag.id
    let idxRewritten : Bool :=
      needsRemap && (match idxE with
        | none => false
        | some b => b.any affected.contains)
    match rewriteFragments t.frags (ds'.map fun d => ⟨d.olds, d.news⟩) (maxFrag + 1) with
    | .error e => .error e
    | .ok frags =>
      let newIdx : Except Err (Option (List Nat)) :=
        match idxE with
        | none => .ok none
        | some b =>
          if t.stable || idxRewritten then
            match recalcBitmap b pairs b with
            | .ok b' => .ok (some b')
            | .error e => .error e
          else .ok (some b)
      -- with stable row ids every index bitmap is recalculated, the old fragment reuse index included — it is
      -- replaced right after when the remap is deferred
      let newFriB : Except Err (Option (List Nat)) :=
        if o.defer then .ok (some (ds'.flatMap fun d => d.news.map Frag.id))
        else match friE with
          | none => .ok none
          | some b =>
            if t.stable then
              match recalcBitmap b pairs b with
              | .ok b' => .ok (some b')
              | .error e => .error e
            else .ok (some b)
      match newIdx, newFriB with
      | .ok i, .ok fb =>
        .ok { t with version := version + 1, frags := frags, maxFrag := maxId frags maxFrag,
                     idx := i, fri := if o.defer then t.fri ++ [pairs] else t.fri, friBitmap := fb }
      | .error e, _ => .error e
      | _, .error e => .error e

/-! ### schedules derived from the op line (the same derivation is in harness/src/bin/c13.rs) -/

def removeAt {α : Type} : List α → Nat → List α
  | [], _ => []
  | _ :: xs, 0 => xs
  | x :: xs, k + 1 => x :: removeAt xs k

/-- execution order of `n` tasks from the numbers `xs`: repeatedly pick `xs[j mod len] mod remaining` -/
def orderFrom (xs : List Nat) : Nat → List Nat → Nat → List Nat
  | 0, _, _ => []
  | fuel + 1, remaining, j =>
    if remaining.isEmpty then []
    else
      let x := if xs.isEmpty then 0 else xs.getD (j % xs.length) 0
      let k := x % remaining.length
      remaining.getD k 0 :: orderFrom xs fuel (removeAt remaining k) (j + 1)

def execOrder (xs : List Nat) (n : Nat) : List Nat := orderFrom xs n (List.range n) 0

/-- batch number (0 = never committed, 1..3) of the task at execution position `j` -/
def batchOf (cs : List Nat) (j : Nat) : Nat := if cs.isEmpty then 1 else cs.getD (j % cs.length) 0 % 4

/-- the commits: batches 1, 2, 3 in this order, empty batches skipped; batch 2 takes its tasks in reverse -/
def batches {α : Type} (cs : List Nat) (done : List α) : List (List α) :=
  let tagged := done.zipIdx
  let pick (b : Nat) : List α := (tagged.filter fun p => batchOf cs p.2 == b).map (·.1)
  [pick 1, (pick 2).reverse, pick 3].filter (fun l => !l.isEmpty)

def commitAll (o : Opts) : Table → List (List Done) → Except Err Table
  | t, [] => .ok t
  | t, b :: bs =>
    match commit o t b with
    | .error e => .error e
    | .ok t' => commitAll o t' bs

structure CompactOut where
  plan : List (List Frag)
  done : List Done
  committed : List (List Done)
  table : Table
  deriving Repr

/-- a whole `compact` op line: plan on the current version, execute in the derived order, commit the derived batches
    (`compact_files` = identity order, one batch with everything) -/
def compact (o : Opts) (t : Table) (xs cs : List Nat) : Except Err CompactOut :=
  match effBitmaps t with
  | none => .error .panic
  | some ixs =>
    let p := plan o ixs t.frags
    let order := execOrder xs p.length
    let r := execTasks o t.stable p order t.version t.maxFrag
    let bs := batches cs r.1
    match commitAll o { t with version := r.2.1, maxFrag := r.2.2 } bs with
    | .error e => .error e
    | .ok t' => .ok ⟨p, r.1, bs, t'⟩

end LanceModel.C13
