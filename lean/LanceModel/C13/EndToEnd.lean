import LanceModel.C13.ExecLemmas
/-
C13 end to end: what `commit` / `compact` (the functions the driver runs) do to the fragments.
-/
namespace LanceModel.C13
open LanceModel.Table

/-- the fragment list of a successful `commit` is `rewriteFragments` of the committed groups (numbered first when
    the table has stable row ids) -/
theorem commit_frags (o : Opts) (t t' : Table) (ds : List Done) (hne : ds.isEmpty = false)
    (h : commit o t ds = .ok t') :
    ∃ next, rewriteFragments t.frags (doneGroups (if t.stable then numberGroups ds (t.maxFrag + 1) else ds)) next
      = .ok t'.frags := by
  unfold commit at h
  simp only [hne, Bool.false_eq_true, if_false] at h
  split at h
  · simp at h
  · simp at h
  · split at h
    · simp at h
    · rename_i frags hfr
      split at h
      · simp only [Except.ok.injEq] at h
        subst h
        exact ⟨_, by simpa [doneGroups] using hfr⟩
      · simp at h
      · simp at h


theorem rewriteFragments_ok (final : List Frag) (gs : List Group) (next : Nat) (h : CommitOk final gs) :
    ∃ frags', rewriteFragments final gs next = .ok frags' ∧ (visible frags').Perm (visible final)
      ∧ (frags'.map Frag.id).Nodup ∧ SortedById frags' := by
  obtain ⟨final', h1, h2, h3⟩ := handleRewrite_ok gs final next h
  refine ⟨sortById final', by simp [rewriteFragments, h1], ?_, ?_, sortById_sorted _⟩
  · exact (visible_perm (sortById_perm final')).trans h2
  · exact ((sortById_perm final').map Frag.id).nodup_iff.mpr h3

/-- fragment ids are unique and below the high-water mark `max_fragment_id` -/
def TableWF (t : Table) : Prop := (t.frags.map Frag.id).Nodup ∧ ∀ f ∈ t.frags, f.id ≤ t.maxFrag

theorem commit_empty (o : Opts) (t t' : Table) (ds : List Done) (he : ds.isEmpty = true)
    (h : commit o t ds = .ok t') : t' = t := by
  unfold commit at h
  simp only [he, if_true, Except.ok.injEq] at h
  exact h.symm

/-- **one commit, address-style row ids**: committing any subset of the executed tasks of a plan, in any order -/
theorem commit_preserves_nonstable (o : Opts) (ixs : List (List Nat)) (t t1 t' : Table) (hwf : TableWF t)
    (ht : 0 < o.target) (hfr : t1.frags = t.frags) (hst : t1.stable = false)
    (order : List Nat) (hnd : order.Nodup) (v : Nat) (ds ds0 : List Done) (hperm : ds.Perm ds0)
    (hsub : ds0.Sublist (execTasks o false (plan o ixs t.frags) order v t.maxFrag).1)
    (h : commit o t1 ds = .ok t') :
    (visible t'.frags).Perm (visible t.frags) ∧ (t'.frags.map Frag.id).Nodup := by
  cases he : ds.isEmpty with
  | true =>
    rw [commit_empty o t1 t' ds he h, hfr]
    exact ⟨List.Perm.refl _, hwf.1⟩
  | false =>
    obtain ⟨next, hrf⟩ := commit_frags o t1 t' ds he h
    simp only [hst, Bool.false_eq_true, if_false, hfr] at hrf
    have hpd := plan_tasks_disjoint o ixs t.frags hwf.1
    have hpk := picked_distinct (plan o ixs t.frags) hpd.1 (plan_nonempty o ixs t.frags ht) order hnd
    have hall : CommitOk t.frags (doneGroups (execTasks o false (plan o ixs t.frags) order v t.maxFrag).1) := by
      rw [execTasks_nonstable]
      apply selTasks_commitOk o ixs t.frags ht hwf.1 t.maxFrag hwf.2 _ ?_ hpk.1
      intro p hp
      obtain ⟨k, _, hk⟩ := hpk.2 p hp
      exact List.mem_of_getElem? hk
    have hok := commitOk_subset t.frags _ (doneGroups ds0) (doneGroups ds) hall (hsub.map _) (hperm.map _)
    obtain ⟨frags', h1, h2, h3, _⟩ := rewriteFragments_ok t.frags (doneGroups ds) next hok
    rw [hrf] at h1
    injection h1 with h1
    exact h1 ▸ ⟨h2, h3⟩

/-- **one commit, stable row ids**: the committed subset is numbered inside the commit -/
theorem commit_preserves_stable (o : Opts) (ixs : List (List Nat)) (t t1 t' : Table) (hwf : TableWF t)
    (ht : 0 < o.target) (hfr : t1.frags = t.frags) (hst : t1.stable = true) (hmf : t1.maxFrag = t.maxFrag)
    (order : List Nat) (hnd : order.Nodup) (v mf : Nat) (ds ds0 : List Done) (hperm : ds.Perm ds0)
    (hsub : ds0.Sublist (execTasks o true (plan o ixs t.frags) order v mf).1)
    (h : commit o t1 ds = .ok t') :
    (visible t'.frags).Perm (visible t.frags) ∧ (t'.frags.map Frag.id).Nodup := by
  cases he : ds.isEmpty with
  | true =>
    rw [commit_empty o t1 t' ds he h, hfr]
    exact ⟨List.Perm.refl _, hwf.1⟩
  | false =>
    obtain ⟨next, hrf⟩ := commit_frags o t1 t' ds he h
    simp only [hst, if_true, hfr, hmf] at hrf
    have hpd := plan_tasks_disjoint o ixs t.frags hwf.1
    have hpk := picked_distinct (plan o ixs t.frags) hpd.1 (plan_nonempty o ixs t.frags ht) order hnd
    rw [execTasks_stable] at hsub
    -- every committed result is the zero-id result of its task
    have hmem : ∀ d ∈ ds, ∃ p ∈ picked (plan o ixs t.frags) order, zeroDone o p = d := by
      intro d hd
      have := hsub.subset (hperm.subset hd)
      exact List.mem_map.mp this
    have hds : ds = (ds.map (·.olds)).map (zeroDone o) := by
      rw [List.map_map]
      symm
      calc ds.map (zeroDone o ∘ fun d => d.olds) = ds.map id := by
            apply List.map_congr_left
            intro d hd
            obtain ⟨p, _, hpd'⟩ := hmem d hd
            simp only [Function.comp, id]
            rw [← hpd']
            rfl
        _ = ds := List.map_id _
    have hts_perm : (ds.map (·.olds)).Perm (ds0.map (·.olds)) := hperm.map _
    have hts_sub : (ds0.map (·.olds)).Sublist (picked (plan o ixs t.frags) order) := by
      have := hsub.map (fun d : Done => d.olds)
      rw [List.map_map] at this
      have hid : ((fun d : Done => d.olds) ∘ zeroDone o) = id := by funext p; rfl
      rwa [hid, List.map_id] at this
    have hdist : (ds.map (·.olds)).Pairwise (· ≠ ·) :=
      (hts_perm.pairwise_iff (fun hab => Ne.symm hab)).mpr (hpk.1.sublist hts_sub)
    have hplan : ∀ p ∈ ds.map (·.olds), p ∈ plan o ixs t.frags := by
      intro p hp
      obtain ⟨k, _, hk⟩ := hpk.2 p (hts_sub.subset (hts_perm.subset hp))
      exact List.mem_of_getElem? hk
    have hok := selTasks_commitOk o ixs t.frags ht hwf.1 t.maxFrag hwf.2 (ds.map (·.olds)) hplan hdist
    rw [hds, numberGroups_zeroDone] at hrf
    obtain ⟨frags', h1, h2, h3, _⟩ := rewriteFragments_ok t.frags _ next hok
    rw [hrf] at h1
    injection h1 with h1
    exact h1 ▸ ⟨h2, h3⟩

/-! ### the schedule derived from the op line -/

theorem removeAt_sublist {α : Type} : ∀ (l : List α) (k : Nat), (removeAt l k).Sublist l
  | [], _ => by simp [removeAt]
  | _ :: xs, 0 => by simp [removeAt]
  | x :: xs, k + 1 => by
    simp only [removeAt]
    exact (removeAt_sublist xs k).cons_cons x

theorem getD_mem : ∀ (l : List Nat) (k : Nat), k < l.length → l.getD k 0 ∈ l
  | [], k, h => by simp at h
  | x :: xs, 0, _ => by simp
  | x :: xs, k + 1, h => by
    simp only [List.getD_cons_succ]
    exact List.mem_cons_of_mem _ (getD_mem xs k (by simpa using h))

theorem removeAt_not_mem : ∀ (l : List Nat) (k : Nat), l.Nodup → k < l.length → l.getD k 0 ∉ removeAt l k
  | [], k, _, h => by simp at h
  | x :: xs, 0, hn, _ => by
    simp only [List.getD_cons_zero, removeAt]
    exact (List.nodup_cons.mp hn).1
  | x :: xs, k + 1, hn, h => by
    have hn' := List.nodup_cons.mp hn
    have hk : k < xs.length := by simpa using h
    simp only [List.getD_cons_succ, removeAt, List.mem_cons, not_or]
    refine ⟨?_, removeAt_not_mem xs k hn'.2 hk⟩
    intro he
    exact hn'.1 (he ▸ getD_mem xs k hk)

theorem orderFrom_nodup (xs : List Nat) : ∀ (fuel : Nat) (remaining : List Nat) (j : Nat), remaining.Nodup →
    (orderFrom xs fuel remaining j).Nodup ∧ ∀ x ∈ orderFrom xs fuel remaining j, x ∈ remaining
  | 0, _, _, _ => by simp [orderFrom]
  | fuel + 1, remaining, j, hn => by
    unfold orderFrom
    split
    · simp
    · rename_i hne
      have hpos : 0 < remaining.length := by
        cases remaining with
        | nil => simp at hne
        | cons => simp
      simp only []
      generalize hk : (if xs.isEmpty then 0 else xs.getD (j % xs.length) 0) % remaining.length = k
      have hklt : k < remaining.length := by rw [← hk]; exact Nat.mod_lt _ hpos
      have ih := orderFrom_nodup xs fuel (removeAt remaining k) (j + 1) ((removeAt_sublist remaining k).nodup hn)
      refine ⟨List.nodup_cons.mpr ⟨?_, ih.1⟩, ?_⟩
      · intro hmem
        exact removeAt_not_mem remaining k hn hklt (ih.2 _ hmem)
      · intro x hx
        rcases List.mem_cons.mp hx with h | h
        · exact h ▸ getD_mem remaining k hklt
        · exact (removeAt_sublist remaining k).subset (ih.2 x h)

/-- every derived execution order runs each task at most once -/
theorem execOrder_nodup (xs : List Nat) (n : Nat) : (execOrder xs n).Nodup :=
  (orderFrom_nodup xs n (List.range n) 0 List.nodup_range).1

theorem pick_sublist {α : Type} (q : α × Nat → Bool) (done : List α) :
    ((done.zipIdx.filter q).map (·.1)).Sublist done := by
  have h := (List.filter_sublist (p := q) (l := done.zipIdx)).map Prod.fst
  rwa [List.zipIdx_map_fst] at h

/-- every derived commit batch is a rearranged subset of the executed tasks -/
theorem batches_subperm {α : Type} (cs : List Nat) (done : List α) :
    ∀ b ∈ batches cs done, ∃ b0, b.Perm b0 ∧ b0.Sublist done := by
  intro b hb
  simp only [batches, List.mem_filter, List.mem_cons, List.not_mem_nil, or_false] at hb
  rcases hb.1 with h | h | h
  · exact ⟨b, List.Perm.refl _, h ▸ pick_sublist _ done⟩
  · exact ⟨_, h ▸ List.reverse_perm _, pick_sublist _ done⟩
  · exact ⟨b, List.Perm.refl _, h ▸ pick_sublist _ done⟩

theorem execTasks_stable_counters (o : Opts) (tasks : List (List Frag)) : ∀ (order : List Nat) (v mf : Nat),
    (execTasks o true tasks order v mf).2 = (v, mf)
  | [], _, _ => rfl
  | k :: ks, v, mf => by
    unfold execTasks
    cases hk : tasks[k]? with
    | none => exact execTasks_stable_counters o tasks ks v mf
    | some olds => simpa using execTasks_stable_counters o tasks ks v mf

/-- **compact_preserves**: a whole `compact` op — plan on the current version with the index coverage `load_indices`
    shows, execute the tasks in ANY derived order, commit ANY derived subset in one commit (this includes
    `compact_files`: identity order, everything in one commit) — leaves the scan a permutation of the old scan (rows
    with their stable row ids and created / updated versions) and fragment ids unique, for every table with unique
    fragment ids below max_fragment_id, all options with target ≥ 1, stable row ids or not, deferred remap or not. -/
theorem compact_preserves (o : Opts) (t : Table) (xs cs : List Nat) (out : CompactOut) (hwf : TableWF t)
    (ht : 0 < o.target)
    (hone : ∀ ixs, effBitmaps t = some ixs → (batches cs (execTasks o t.stable (plan o ixs t.frags)
      (execOrder xs (plan o ixs t.frags).length) t.version t.maxFrag).1).length ≤ 1)
    (h : compact o t xs cs = .ok out) :
    (visible out.table.frags).Perm (visible t.frags) ∧ (out.table.frags.map Frag.id).Nodup := by
  unfold compact at h
  split at h
  · simp at h
  · rename_i ixs hix
    simp only [] at h
    split at h
    · simp at h
    · rename_i t' hc
      simp only [Except.ok.injEq] at h
      subst h
      simp only []
      have hlen := hone ixs hix
      have hnd := execOrder_nodup xs (plan o ixs t.frags).length
      generalize hbs : batches cs (execTasks o t.stable (plan o ixs t.frags)
        (execOrder xs (plan o ixs t.frags).length) t.version t.maxFrag).1 = bs at hc hlen
      match bs, hlen with
      | [], _ =>
        simp only [commitAll, Except.ok.injEq] at hc
        subst hc
        exact ⟨List.Perm.refl _, hwf.1⟩
      | [b], _ =>
        simp only [commitAll] at hc
        split at hc
        · simp at hc
        · rename_i t'' hcm
          simp only [Except.ok.injEq] at hc
          subst hc
          obtain ⟨b0, hp, hs⟩ := batches_subperm cs _ b (by rw [hbs]; exact List.mem_singleton_self b)
          cases hst : t.stable with
          | false =>
            rw [hst] at hs hcm
            refine commit_preserves_nonstable o ixs t _ t'' hwf ht ?_ ?_ _ hnd t.version b b0 hp hs hcm
            · rfl
            · rfl
          | true =>
            rw [hst] at hs hcm
            refine commit_preserves_stable o ixs t _ t'' hwf ht ?_ ?_ ?_ _ hnd t.version t.maxFrag b b0 hp hs hcm
            · rfl
            · rfl
            · simp only [execTasks_stable_counters]

theorem batches_nil_length {α : Type} (done : List α) : (batches [] done).length ≤ 1 := by
  simp only [batches, batchOf, List.isEmpty_nil, if_true]
  have h2 : (done.zipIdx.filter fun p => (1 : Nat) == 2) = [] := by simp
  have h3 : (done.zipIdx.filter fun p => (1 : Nat) == 3) = [] := by simp
  simp only [h2, h3, List.map_nil, List.reverse_nil]
  simp only [List.filter_cons, List.isEmpty_nil, Bool.not_true, Bool.false_eq_true, if_false, List.filter_nil]
  split <;> simp

/-- **compact_files** (`via=files`: identity order, one commit with every task) preserves the contents -/
theorem compact_files_preserves (o : Opts) (t : Table) (xs : List Nat) (out : CompactOut) (hwf : TableWF t)
    (ht : 0 < o.target) (h : compact o t xs [] = .ok out) :
    (visible out.table.frags).Perm (visible t.frags) ∧ (out.table.frags.map Frag.id).Nodup :=
  compact_preserves o t xs [] out hwf ht (fun _ _ => batches_nil_length _) h

end LanceModel.C13
