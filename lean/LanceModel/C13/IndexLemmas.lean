import LanceModel.C13.Model
import LanceModel.C13.Remap
/-
C13 lemmas about index coverage under the load_indices view (remap_fragment_bitmap) and about remap_row_id.
-/
namespace LanceModel.C13
open LanceModel.Table

/-! ### fragment bitmaps: "the index has seen every row of the fragment" is an invariant -/

theorem recalcBitmap_seen (Seen : Nat → Prop) (old : List Nat) (hold : ∀ x ∈ old, Seen x) :
    ∀ (gs : List (List Nat × List Nat)) (acc res : List Nat), recalcBitmap old gs acc = .ok res →
      (∀ x ∈ acc, Seen x) → (∀ g ∈ gs, (∀ o ∈ g.1, Seen o) → ∀ n ∈ g.2, Seen n) → ∀ x ∈ res, Seen x
  | [], acc, res, h, hacc, _ => by
    simp only [recalcBitmap, Except.ok.injEq] at h
    exact h ▸ hacc
  | (olds, news) :: gs, acc, res, h, hacc, hg => by
    unfold recalcBitmap at h
    have hg' : ∀ g ∈ gs, (∀ o ∈ g.1, Seen o) → ∀ n ∈ g.2, Seen n := fun g hm => hg g (List.mem_cons_of_mem _ hm)
    split at h
    · split at h
      · rename_i hall
        apply recalcBitmap_seen Seen old hold gs _ res h ?_ hg'
        intro x hx
        rcases List.mem_append.mp hx with h1 | h1
        · exact hacc x (List.mem_filter.mp h1).1
        · apply hg (olds, news) (List.mem_cons_self ..) ?_ x h1
          intro o ho
          have := List.all_eq_true.mp hall o ho
          exact hold o (by simpa using this)
      · simp at h
    · exact recalcBitmap_seen Seen old hold gs acc res h hacc hg'

theorem remapBitmapGroups_seen (Seen : Nat → Prop) :
    ∀ (gs : List (List Nat × List Nat)) (acc res : List Nat), remapBitmapGroups gs acc = .ok res →
      (∀ x ∈ acc, Seen x) → (∀ g ∈ gs, (∀ o ∈ g.1, Seen o) → ∀ n ∈ g.2, Seen n) → ∀ x ∈ res, Seen x
  | [], acc, res, h, hacc, _ => by
    simp only [remapBitmapGroups, Except.ok.injEq] at h
    exact h ▸ hacc
  | (olds, news) :: gs, acc, res, h, hacc, hg => by
    unfold remapBitmapGroups at h
    have hg' : ∀ g ∈ gs, (∀ o ∈ g.1, Seen o) → ∀ n ∈ g.2, Seen n := fun g hm => hg g (List.mem_cons_of_mem _ hm)
    split at h
    · split at h
      · rename_i hall
        apply remapBitmapGroups_seen Seen gs _ res h ?_ hg'
        intro x hx
        rcases List.mem_append.mp hx with h1 | h1
        · exact hacc x (List.mem_filter.mp h1).1
        · apply hg (olds, news) (List.mem_cons_self ..) ?_ x h1
          intro o ho
          have := List.all_eq_true.mp hall o ho
          exact hacc o (by simpa using this)
      · simp at h
    · exact remapBitmapGroups_seen Seen gs acc res h hacc hg'

theorem remapBitmap_seen (Seen : Nat → Prop) :
    ∀ (vs : List (List (List Nat × List Nat))) (acc res : List Nat), remapBitmap vs acc = .ok res →
      (∀ x ∈ acc, Seen x) → (∀ v ∈ vs, ∀ g ∈ v, (∀ o ∈ g.1, Seen o) → ∀ n ∈ g.2, Seen n) → ∀ x ∈ res, Seen x
  | [], acc, res, h, hacc, _ => by
    simp only [remapBitmap, Except.ok.injEq] at h
    exact h ▸ hacc
  | v :: vs, acc, res, h, hacc, hg => by
    unfold remapBitmap at h
    split at h
    · simp at h
    · rename_i acc' hv
      exact remapBitmap_seen Seen vs acc' res h
        (remapBitmapGroups_seen Seen v acc acc' hv hacc (hg v (List.mem_cons_self ..)))
        (fun w hw => hg w (List.mem_cons_of_mem _ hw))

/-! ### remap_row_id -/

theorem foldl_remapStep_none (maps : List AddrMap) : maps.foldl remapStep none = none := by
  induction maps with
  | nil => rfl
  | cons m ms ih => simpa [List.foldl_cons, remapStep] using ih

theorem remapRowId_nil (a : Nat) : remapRowId [] a = some a := rfl

theorem remapRowId_cons (m : AddrMap) (ms : List AddrMap) (a : Nat) :
    remapRowId (m :: ms) a = (remapOne m a).bind (remapRowId ms) := by
  unfold remapRowId
  simp only [List.foldl_cons, remapStep]
  cases remapOne m a with
  | none => simpa using foldl_remapStep_none ms
  | some b => rfl

theorem remapRowId_append (ms₁ ms₂ : List AddrMap) (a : Nat) :
    remapRowId (ms₁ ++ ms₂) a = (remapRowId ms₁ a).bind (remapRowId ms₂) := by
  induction ms₁ generalizing a with
  | nil => simp [remapRowId_nil]
  | cons m ms ih =>
    simp only [List.cons_append, remapRowId_cons]
    cases remapOne m a with
    | none => rfl
    | some b => simpa using ih b

/-- one deferred compaction between two versions of the table, as seen by an index entry: the row stored at an
    address of the old version is found at the remapped address of the new one -/
def StepOk (T T' : List Frag) (m : AddrMap) : Prop :=
  ∀ a r, rowAt T a = some r → r.del = false → ∃ b, remapOne m a = some b ∧ rowAt T' b = some r

/-- a sequence of deferred compactions: each with its address map and the table it produced -/
def ChainOk : List Frag → List (AddrMap × List Frag) → Prop
  | _, [] => True
  | T, (m, T') :: rest => StepOk T T' m ∧ ChainOk T' rest

def lastTable : List Frag → List (AddrMap × List Frag) → List Frag
  | T, [] => T
  | _, (_, T') :: rest => lastTable T' rest

theorem remap_chain_row : ∀ (steps : List (AddrMap × List Frag)) (T : List Frag), ChainOk T steps →
    ∀ a r, rowAt T a = some r → r.del = false →
      ∃ b, remapRowId (steps.map (·.1)) a = some b ∧ rowAt (lastTable T steps) b = some r
  | [], T, _, a, r, hr, _ => ⟨a, rfl, hr⟩
  | (m, T') :: rest, T, h, a, r, hr, hd => by
    obtain ⟨b, hb1, hb2⟩ := h.1 a r hr hd
    obtain ⟨c, hc1, hc2⟩ := remap_chain_row rest T' h.2 b r hb2 hd
    refine ⟨c, ?_, hc2⟩
    simp only [List.map_cons, remapRowId_cons, hb1, Option.bind_some]
    exact hc1

end LanceModel.C13
