import LanceModel.C05.ArmLemmas
/-
C05: the `Rewrite` arm (compaction) — `handle_rewrite_fragments`, `recalculate_fragment_bitmap`,
`handle_rewrite_indices`.
-/
namespace LanceModel.C05

theorem nodup_insert_middle {A N B : List Nat} (hab : (A ++ B).Nodup) (hn : N.Nodup)
    (hd : ∀ x ∈ N, x ∉ A ∧ x ∉ B) : (A ++ N ++ B).Nodup := by
  simp only [List.nodup_append, List.mem_append] at *
  obtain ⟨ha, hb, hab'⟩ := hab
  refine ⟨⟨ha, hn, ?_⟩, hb, ?_⟩
  · intro a haA b hbN e; subst e; exact (hd a hbN).1 haA
  · intro a haAN b hbB e
    subst e
    rcases haAN with h | h
    · exact hab' a h a hbB rfl
    · exact (hd a h).2 hbB

theorem mem_ids_of_sublist {l l' : List Frag} (h : l'.Sublist l) {i : Nat} (hi : i ∈ fragIds l') : i ∈ fragIds l :=
  (List.Sublist.map (fun f : Frag => f.id) h).subset hi

/-- one group: every resulting fragment is an old or a new one; ids stay pairwise different -/
theorem rewriteGroup_spec {final : List Frag} {old : List Nat} {new final' : List Frag}
    (h : rewriteGroup final old new = .ok final') :
    (∀ f ∈ final', f ∈ final ∨ f ∈ new) ∧
    ((fragIds final).Nodup → (fragIds new).Nodup → (∀ f ∈ new, f.id ∉ fragIds final) → (fragIds final').Nodup) := by
  unfold rewriteGroup at h
  cases old with
  | nil => cases h
  | cons o os =>
    simp only at h
    cases hs : findIdx o final with
    | none => rw [hs] at h; cases h
    | some start =>
      rw [hs] at h
      simp only at h
      split at h
      · cases h
        have hsub : (final.take start ++ final.drop (start + (o :: os).length)).Sublist final := by
          have : final.drop (start + (o :: os).length) = (final.drop start).drop (o :: os).length := by
            rw [List.drop_drop]
          rw [this]
          have h2 : (final.take start ++ (final.drop start).drop (o :: os).length).Sublist
              (final.take start ++ final.drop start) :=
            List.Sublist.append (List.Sublist.refl _) (List.drop_sublist _ _)
          rwa [List.take_append_drop] at h2
        refine ⟨?_, ?_⟩
        · intro f hf
          simp only [List.mem_append] at hf
          rcases hf with (hf | hf) | hf
          · exact Or.inl ((List.take_sublist _ _).subset hf)
          · exact Or.inr hf
          · exact Or.inl ((List.drop_sublist _ _).subset hf)
        · intro hn hnew hdis
          simp only [fragIds, List.map_append]
          apply nodup_insert_middle
          · have := List.Nodup.sublist (List.Sublist.map (fun f : Frag => f.id) hsub) hn
            simpa only [List.map_append] using this
          · exact hnew
          · intro x hx
            obtain ⟨f, hf, rfl⟩ := List.mem_map.1 hx
            have hno := hdis f hf
            refine ⟨?_, ?_⟩
            · intro hc; exact hno (mem_ids_of_sublist (List.take_sublist _ _) hc)
            · intro hc; exact hno (mem_ids_of_sublist (List.drop_sublist _ _) hc)
      · cases h
        refine ⟨?_, ?_⟩
        · intro f hf
          rcases List.mem_append.1 hf with hf | hf
          · exact Or.inl (List.mem_filter.1 hf).1
          · exact Or.inr hf
        · intro hn hnew hdis
          simp only [fragIds, List.map_append]
          rw [List.nodup_append]
          refine ⟨List.Nodup.sublist (List.Sublist.map _ List.filter_sublist) hn, hnew, ?_⟩
          intro a ha b hb e
          subst e
          obtain ⟨f, hf, rfl⟩ := List.mem_map.1 hb
          exact hdis f hf (mem_ids_of_sublist List.filter_sublist ha)

/-- `handle_rewrite_fragments` with reserved (non-zero) ids -/
theorem handleRewriteFragments_spec {gs : List (List Nat × List Frag)} (hnz : ∀ g ∈ gs, ∀ f ∈ g.2, f.id ≠ 0)
    {final final' : List Frag} {fid : Nat} (h : handleRewriteFragments final gs fid = .ok final') :
    (∀ f ∈ final', f ∈ final ∨ f ∈ gs.flatMap (·.2)) ∧
    ((fragIds final).Nodup → (fragIds (gs.flatMap (·.2))).Nodup →
      (∀ f ∈ gs.flatMap (·.2), f.id ∉ fragIds final) → (fragIds final').Nodup) := by
  induction gs generalizing final fid with
  | nil => simp only [handleRewriteFragments] at h; cases h; exact ⟨fun f hf => Or.inl hf, fun hn _ _ => hn⟩
  | cons g rest ih =>
    obtain ⟨old, new⟩ := g
    have hnew : fragsWithIds new fid = (new, fid) := fragsWithIds_nonzero (hnz (old, new) (by simp)) fid
    simp only [handleRewriteFragments, hnew] at h
    cases hg : rewriteGroup final old new with
    | error e => rw [hg] at h; cases h
    | ok final1 =>
      rw [hg] at h
      simp only at h
      obtain ⟨g1, g2⟩ := rewriteGroup_spec hg
      obtain ⟨r1, r2⟩ := ih (fun g hg' f hf => hnz g (by simp [hg']) f hf) h
      refine ⟨?_, ?_⟩
      · intro f hf
        simp only [List.flatMap_cons, List.mem_append]
        rcases r1 f hf with h1 | h1
        · rcases g1 f h1 with h2 | h2
          · exact Or.inl h2
          · exact Or.inr (Or.inl h2)
        · exact Or.inr (Or.inr h1)
      · intro hn hall hdis
        simp only [List.flatMap_cons, fragIds, List.map_append] at hall
        rw [List.nodup_append] at hall
        obtain ⟨hnn, hrn, hdj⟩ := hall
        have hfin1 : (fragIds final1).Nodup :=
          g2 hn hnn (fun f hf => hdis f (by simp [hf]))
        apply r2 hfin1 hrn
        intro f hf hc
        obtain ⟨f1, hf1, e⟩ := List.mem_map.1 hc
        rcases g1 f1 hf1 with h2 | h2
        · exact hdis f (by simp only [List.flatMap_cons, List.mem_append]; exact Or.inr hf) (e ▸ mem_fragIds h2)
        · exact hdj f1.id (List.mem_map.2 ⟨f1, h2, rfl⟩) f.id (List.mem_map.2 ⟨f, hf, rfl⟩) e

/-! ### bitmaps -/

theorem recalcBitmap_mem {old : List Nat} {gs : List (List Nat × List Frag)} {acc b' : List Nat}
    (h : recalcBitmap old gs acc = .ok b') : ∀ i ∈ b', i ∈ acc ∨ i ∈ fragIds (gs.flatMap (·.2)) := by
  induction gs generalizing acc with
  | nil => simp only [recalcBitmap] at h; cases h; exact fun i hi => Or.inl hi
  | cons g rest ih =>
    obtain ⟨oldIds, newFrags⟩ := g
    simp only [recalcBitmap] at h
    intro i hi
    simp only [List.flatMap_cons, fragIds, List.map_append, List.mem_append]
    split at h
    · split at h
      · rcases ih h i hi with h1 | h1
        · rcases mem_bmInsertAll h1 with h2 | h2
          · exact Or.inl (mem_bmRemoveAll h2)
          · exact Or.inr (Or.inl h2)
        · exact Or.inr (Or.inr h1)
      · cases h
    · rcases ih h i hi with h1 | h1
      · exact Or.inl h1
      · exact Or.inr (Or.inr h1)

/-- the membership half of `IxLike` -/
def MemLike (extra : List Nat) (ixs' ixs : List Index) : Prop :=
  ∀ ix' ∈ ixs', ∃ ix ∈ ixs, ix'.fields = ix.fields ∧ ∀ i ∈ bmIds ix', i ∈ bmIds ix ∨ i ∈ extra

theorem MemLike.trans {extra : List Nat} {a b c : List Index} (h1 : MemLike extra a b) (h2 : MemLike extra b c) :
    MemLike extra a c := by
  intro ix' hix'
  obtain ⟨ix, hix, hf, hb⟩ := h1 ix' hix'
  obtain ⟨jx, hjx, hf2, hb2⟩ := h2 ix hix
  refine ⟨jx, hjx, hf.trans hf2, ?_⟩
  intro i hi
  rcases hb i hi with h | h
  · exact hb2 i h
  · exact Or.inr h

theorem MemLike.refl (extra : List Nat) (a : List Index) : MemLike extra a a :=
  fun ix h => ⟨ix, h, rfl, fun _ hi => Or.inl hi⟩

/-- stable row ids: every bitmap is recalculated, nothing else changes -/
theorem mapRecalc_like {groups : List (List Nat × List Frag)} {ixs ixs' : List Index}
    (h : mapExcept (recalcIndex groups) ixs = .ok ixs') : IxLike (fragIds (groups.flatMap (·.2))) ixs' ixs := by
  induction ixs generalizing ixs' with
  | nil => simp only [mapExcept] at h; cases h; exact IxLike.refl _ _
  | cons ix rest ih =>
    simp only [mapExcept] at h
    cases h1 : recalcIndex groups ix with
    | error e => rw [h1] at h; cases h
    | ok ix1 =>
      rw [h1] at h
      simp only at h
      cases h2 : mapExcept (recalcIndex groups) rest with
      | error e => rw [h2] at h; cases h
      | ok rest1 =>
        rw [h2] at h
        cases h
        have ihr := ih h2
        have hone : ix1.name = ix.name ∧ ix1.uuid = ix.uuid ∧ ix1.fields = ix.fields ∧
            ∀ i ∈ bmIds ix1, i ∈ bmIds ix ∨ i ∈ fragIds (groups.flatMap (·.2)) := by
          unfold recalcIndex at h1
          cases hb : ix.bitmap with
          | none => rw [hb] at h1; cases h1; exact ⟨rfl, rfl, rfl, fun i hi => Or.inl hi⟩
          | some b =>
            rw [hb] at h1
            simp only at h1
            cases hr : recalcBitmap b groups b with
            | error e => rw [hr] at h1; cases h1
            | ok b' =>
              rw [hr] at h1
              cases h1
              refine ⟨rfl, rfl, rfl, ?_⟩
              intro i hi
              simp only [bmIds] at hi
              rcases recalcBitmap_mem hr i hi with h3 | h3
              · left; simp only [bmIds, hb]; exact h3
              · exact Or.inr h3
        refine ⟨?_, ?_, ?_⟩
        · simp only [List.map_cons, hone.1, ihr.names]
        · simp only [List.map_cons, hone.2.1, ihr.uuids]
        · intro jx hjx
          rcases List.mem_cons.1 hjx with rfl | hjx
          · exact ⟨ix, by simp, hone.2.2.1, hone.2.2.2⟩
          · obtain ⟨kx, hkx, r⟩ := ihr.mem jx hjx
            exact ⟨kx, by simp [hkx], r⟩

/-- one remapped index: one uuid replaced, one bitmap recalculated -/
theorem rewriteOneIndex_spec {groups : List (List Nat × List Frag)} {p : Nat × Nat} {ixs ixs' : List Index}
    (h : rewriteOneIndex groups p ixs = .ok ixs') :
    ixs'.map (·.name) = ixs.map (·.name) ∧ MemLike (fragIds (groups.flatMap (·.2))) ixs' ixs ∧
    (∀ u ∈ ixs'.map (·.uuid), u ∈ ixs.map (·.uuid) ∨ u = p.2) ∧
    ((ixs.map (·.uuid)).Nodup → p.2 ∉ ixs.map (·.uuid) → (ixs'.map (·.uuid)).Nodup) := by
  induction ixs generalizing ixs' with
  | nil => simp only [rewriteOneIndex] at h; cases h
  | cons ix rest ih =>
    simp only [rewriteOneIndex] at h
    split at h
    · cases hb : ix.bitmap with
      | none => rw [hb] at h; cases h
      | some b =>
        rw [hb] at h
        simp only at h
        cases hr : recalcBitmap b groups b with
        | error e => rw [hr] at h; cases h
        | ok b' =>
          rw [hr] at h
          cases h
          refine ⟨by simp, ?_, ?_, ?_⟩
          · intro jx hjx
            rcases List.mem_cons.1 hjx with rfl | hjx
            · refine ⟨ix, by simp, rfl, ?_⟩
              intro i hi
              simp only [bmIds] at hi
              rcases recalcBitmap_mem hr i hi with h3 | h3
              · left; simp only [bmIds, hb]; exact h3
              · exact Or.inr h3
            · exact ⟨jx, by simp [hjx], rfl, fun i hi => Or.inl hi⟩
          · intro u hu
            simp only [List.map_cons, List.mem_cons] at hu ⊢
            rcases hu with rfl | hu
            · exact Or.inr rfl
            · exact Or.inl (Or.inr hu)
          · intro hn hp
            simp only [List.map_cons, List.nodup_cons, List.mem_cons, not_or] at hn hp ⊢
            exact ⟨hp.2, hn.2⟩
    · cases hrec : rewriteOneIndex groups p rest with
      | error e => rw [hrec] at h; cases h
      | ok r =>
        rw [hrec] at h
        cases h
        obtain ⟨i1, i2, i3, i4⟩ := ih hrec
        refine ⟨by simp [i1], ?_, ?_, ?_⟩
        · intro jx hjx
          rcases List.mem_cons.1 hjx with rfl | hjx
          · exact ⟨jx, by simp, rfl, fun i hi => Or.inl hi⟩
          · obtain ⟨kx, hkx, r'⟩ := i2 jx hjx
            exact ⟨kx, by simp [hkx], r'⟩
        · intro u hu
          simp only [List.map_cons, List.mem_cons] at hu ⊢
          rcases hu with rfl | hu
          · exact Or.inl (Or.inl rfl)
          · rcases i3 u hu with h1 | h1
            · exact Or.inl (Or.inr h1)
            · exact Or.inr h1
        · intro hn hp
          simp only [List.map_cons, List.nodup_cons, List.mem_cons, not_or] at hn hp ⊢
          refine ⟨?_, i4 hn.2 hp.2⟩
          intro hc
          rcases i3 _ hc with h1 | h1
          · exact hn.1 h1
          · exact hp.1 h1.symm

/-- `handle_rewrite_indices` with fresh, pairwise different new uuids -/
theorem handleRewriteIndices_spec {groups : List (List Nat × List Frag)} {ps : List (Nat × Nat)} {seen : List Nat}
    {ixs ixs' : List Index} (hn : (ixs.map (·.uuid)).Nodup) (hfresh : ∀ p ∈ ps, p.2 ∉ ixs.map (·.uuid))
    (hnd : (ps.map (·.2)).Nodup) (h : handleRewriteIndices groups ps seen ixs = .ok ixs') :
    ixs'.map (·.name) = ixs.map (·.name) ∧ MemLike (fragIds (groups.flatMap (·.2))) ixs' ixs ∧
    (ixs'.map (·.uuid)).Nodup := by
  induction ps generalizing seen ixs with
  | nil => simp only [handleRewriteIndices] at h; cases h; exact ⟨rfl, MemLike.refl _ _, hn⟩
  | cons p rest ih =>
    simp only [handleRewriteIndices] at h
    split at h
    · cases h
    · cases h1 : rewriteOneIndex groups p ixs with
      | error e => rw [h1] at h; cases h
      | ok ixs1 =>
        rw [h1] at h
        simp only at h
        obtain ⟨o1, o2, o3, o4⟩ := rewriteOneIndex_spec h1
        simp only [List.map_cons, List.nodup_cons] at hnd
        have hn1 := o4 hn (hfresh p (by simp))
        have hfresh1 : ∀ q ∈ rest, q.2 ∉ ixs1.map (·.uuid) := by
          intro q hq hc
          rcases o3 _ hc with h2 | h2
          · exact hfresh q (by simp [hq]) h2
          · exact hnd.1 (h2 ▸ List.mem_map.2 ⟨q, hq, rfl⟩)
        obtain ⟨r1, r2, r3⟩ := ih hn1 hfresh1 hnd.2 h
        exact ⟨r1.trans o1, r2.trans o2, r3⟩

theorem arm_rewrite {m : Manifest} (hw : WF m) {groups : List (List Nat × List Frag)} {rw' : List (Nat × Nat)}
    (hv : Valid m (.rewrite groups rw')) {fid : Nat} {d : Draft}
    (h : arm m fid (if m.stable then some m.nextRowId else none) (.rewrite groups rw') = .ok d) :
    DraftOK m.stable m.maxFrag d := by
  obtain ⟨hg, hgn, hfresh, hnd⟩ := hv
  simp only [arm] at h
  cases hf : handleRewriteFragments m.frags groups fid with
  | error e => rw [hf] at h; cases h
  | ok final =>
    rw [hf] at h
    simp only at h
    obtain ⟨f1, f2⟩ := handleRewriteFragments_spec (fun g hg' f hf' => (hg g hg' f hf').1) hf
    have hnewmem : ∀ f ∈ groups.flatMap (·.2), FragOK m.stable f ∧ f.id ∉ fragIds m.frags ∧ LeMax m.maxFrag f.id := by
      intro f hf'
      obtain ⟨g, hg', hfg⟩ := List.mem_flatMap.1 hf'
      exact ⟨(hg g hg' f hfg).2.1, (hg g hg' f hfg).2.2.1, (hg g hg' f hfg).2.2.2⟩
    have hfrags : ∀ f ∈ final, FragOK m.stable f := by
      intro f hf'
      rcases f1 f hf' with h1 | h1
      · exact hw.2.1 f h1
      · exact (hnewmem f h1).1
    have hids : (fragIds final).Nodup := f2 (wf_ids_nodup hw) hgn (fun f hf' => (hnewmem f hf').2.1)
    have hextra : ∀ i ∈ fragIds (groups.flatMap (·.2)), LeMax m.maxFrag i := by
      intro i hi
      obtain ⟨f, hf', rfl⟩ := List.mem_map.1 hi
      exact (hnewmem f hf').2.2
    obtain ⟨_, _, _, _, hix, hnm, huu⟩ := hw
    split at h
    · rename_i ixs he
      cases h
      have names : ixs.map (·.name) = m.indices.map (·.name) ∧ MemLike (fragIds (groups.flatMap (·.2))) ixs m.indices ∧
          (ixs.map (·.uuid)).Nodup := by
        split at he
        · have := mapRecalc_like he
          exact ⟨this.names, this.mem, this.uuids ▸ huu⟩
        · exact handleRewriteIndices_spec huu hfresh hnd he
      obtain ⟨n1, n2, n3⟩ := names
      refine ⟨by assumption, hfrags, hids, ?_, ?_, n1 ▸ hnm, n3⟩
      · intro ix hx x hxf
        obtain ⟨jx, hjx, hfe, _⟩ := n2 ix hx
        rw [hfe] at hxf
        exact (hix jx hjx).1 x hxf
      · intro ix hx i hi
        obtain ⟨jx, hjx, _, hb⟩ := n2 ix hx
        rcases hb i hi with h1 | h1
        · exact Or.inl ((hix jx hjx).2 i h1)
        · exact Or.inl (hextra i h1)
    · cases h

end LanceModel.C05
