import LanceModel.C05.RewriteLemmas
/-
C05: a valid transaction (other than a compaction, whose groups may name fragments that are gone) never makes
`build_manifest` fail.
-/
namespace LanceModel.C05

theorem assignRowIds_total {fs : List Frag} (h : ∀ f ∈ fs, NewFragOK true f) (n : Nat) :
    ∃ r, assignRowIds n fs = .ok r := by
  induction fs generalizing n with
  | nil => exact ⟨_, rfl⟩
  | cons x xs ih =>
    have hx := h x (by simp)
    have hxs : ∀ f ∈ xs, NewFragOK true f := fun f hf => h f (by simp [hf])
    unfold assignRowIds
    cases hr : x.rid with
    | none =>
      simp only
      obtain ⟨⟨n', r⟩, e⟩ := ih hxs (n + x.rows)
      rw [e]; exact ⟨_, rfl⟩
    | some k =>
      have hk : k ≤ x.rows := by
        have := hx.2
        rw [hr] at this
        exact this.2
      simp only
      split
      · obtain ⟨⟨n', r⟩, e⟩ := ih hxs n
        rw [e]; exact ⟨_, rfl⟩
      · split
        · obtain ⟨⟨n', r⟩, e⟩ := ih hxs (n + (x.rows - k))
          rw [e]; exact ⟨_, rfl⟩
        · omega

theorem assignOpt_total {st : Bool} {fs : List Frag} (hv : ∀ f ∈ fs, f.id = 0 ∧ NewFragOK st f) (n fid : Nat) :
    ∃ r, assignOpt (if st then some n else none) (fragsWithIds fs fid).1 = .ok r := by
  cases st with
  | false => exact ⟨_, rfl⟩
  | true =>
    obtain ⟨_, hmem⟩ := fragsWithIds_zero (fun f hf => (hv f hf).1) fid
    have hnew : ∀ g ∈ (fragsWithIds fs fid).1, NewFragOK true g := by
      intro g hg
      obtain ⟨f, hf, e⟩ := hmem g hg
      rw [e]
      exact newFragOK_id (hv f hf).2
    obtain ⟨⟨n', r⟩, e⟩ := assignRowIds_total hnew n
    simp only [if_true, assignOpt, e]
    exact ⟨_, rfl⟩

theorem finish_total {version : Nat} {prevMax : Option Nat} {prevNext : Nat} {stable : Bool} {reserve : Nat} {d : Draft}
    (hd : DraftOK stable prevMax d) : ∃ m', finish version prevMax prevNext stable reserve d = .ok m' := by
  have hfr : ∀ g ∈ removeTombstoned (sortById d.frags), FragOK stable g := by
    intro g hg
    obtain ⟨f, hf, rfl⟩ := mem_removeTombstoned hg
    exact fragOK_filter_files _ (hd.frags f ((sortById_perm d.frags).mem_iff.1 hf))
  have hst := any_rid_of_stable hfr
  unfold finish
  rw [hst]
  have : (stable && !((removeTombstoned (sortById d.frags)).all (·.rid.isSome))) = false := by
    cases stable with
    | false => rfl
    | true =>
      simp only [Bool.true_and, Bool.not_eq_false']
      rw [List.all_eq_true]
      intro g hg
      have := (hfr g hg).2
      simp only [if_true] at this
      simp [this]
  rw [this]
  exact ⟨_, rfl⟩

end LanceModel.C05
