import LanceModel.C05.TotalLemmas
import LanceModel.C05.ValidateLemmas
/-
C05 — "In every version reachable after any history, schema field ids are unique, no schema field is stored by two
data files of the same fragment, all data files of a fragment have the fragment's row count, deletion vectors only
name existing row positions, fragment ids are unique, ordered and not above the recorded maximum, and (with stable
row ids) every fragment carries exactly one row id per row.  Index metadata only names fields in the schema, and
opening and fully validating any such version succeeds."

`WF` (Model.lean) is the conjunction of the structural clauses; `Valid` is the explicit contract of the writers
(what `validate_operation` and the fragment writers guarantee about a transaction).  Histories are lists of
`Step`s (a transaction or a restore) applied by `commit` = `Transaction::build_manifest` /
`Transaction::restore_old_manifest`.  The last clause ("fully validating succeeds") is NOT met by the code:
`C05_full_counterexample`; it holds for versions whose data files all still store a schema field (`C05_partial`).
Data-file lengths are not part of the model (covered only by the harness calling `Dataset::validate`).
-/
namespace LanceModel.C05

/-! ### `build_manifest` preserves well-formedness -/

/-- creating a dataset from a valid `Overwrite` gives a well-formed first version -/
theorem wf_init {op : Op} {m : Manifest} (hv : ValidCreate op) (h : buildManifest none op = .ok m) : WF m := by
  cases op with
  | overwrite c schema frags =>
    simp only [buildManifest] at h
    split at h
    · rename_i next' new' he
      obtain ⟨hok, hids⟩ := newFrags_ok (n := 0) hv.2 (by
        cases c <;> simpa using he)
      refine wf_finish (stable := c) (prevMax := none) ⟨hv.1, hok, ?_, by simp, by simp, by simp, by simp⟩ h
      simp only []
      rw [hids]
      exact List.nodup_range' 1
    · cases h
  | _ => exact absurd hv (by simp [ValidCreate])

/-- every arm of `build_manifest`: a valid transaction on a well-formed version gives a well-formed version -/
theorem wf_step {m m' : Manifest} {op : Op} (hw : WF m) (hv : Valid m op) (h : buildManifest (some m) op = .ok m') :
    WF m' := by
  simp only [buildManifest] at h
  split at h
  · rename_i d hd
    refine wf_finish ?_ h
    cases op with
    | append frags => exact arm_append hw hv hd
    | overwrite c schema frags => exact arm_overwrite hw hv hd
    | delete upd del => exact arm_delete hw hv hd
    | update rm upd new fm fp rr => exact arm_update hw hv hd
    | rewrite groups rw' => exact arm_rewrite hw hv hd
    | merge schema frags => exact arm_merge hw hv hd
    | project schema => exact arm_project hw hv hd
    | createIndex new rmv => exact arm_createIndex hw hv hd
    | reserve n => simp only [arm] at hd; cases hd; exact draftOK_nextRow _ (arm_keep hw)
    | config => simp only [arm] at hd; cases hd; exact draftOK_nextRow _ (arm_keep hw)
  · cases h

/-- a valid transaction never makes `build_manifest` fail (compaction excepted: a rewrite group may name a
    fragment that is gone, which is reported as a commit conflict) -/
theorem build_total {m : Manifest} {op : Op} (hw : WF m) (hv : Valid m op) (hnr : ∀ g r, op ≠ .rewrite g r) :
    ∃ m', buildManifest (some m) op = .ok m' ∧ WF m' := by
  cases hb : buildManifest (some m) op with
  | ok m' => exact ⟨m', rfl, wf_step hw hv hb⟩
  | error e =>
    exfalso
    simp only [buildManifest] at hb
    split at hb
    · rename_i d hd
      have hok : DraftOK m.stable m.maxFrag d := by
        cases op with
        | append frags => exact arm_append hw hv hd
        | overwrite c schema frags => exact arm_overwrite hw hv hd
        | delete upd del => exact arm_delete hw hv hd
        | update rm upd new fm fp rr => exact arm_update hw hv hd
        | rewrite groups rw' => exact arm_rewrite hw hv hd
        | merge schema frags => exact arm_merge hw hv hd
        | project schema => exact arm_project hw hv hd
        | createIndex new rmv => exact arm_createIndex hw hv hd
        | reserve n => simp only [arm] at hd; cases hd; exact draftOK_nextRow _ (arm_keep hw)
        | config => simp only [arm] at hd; cases hd; exact draftOK_nextRow _ (arm_keep hw)
      obtain ⟨m', hm'⟩ := finish_total (version := m.version + 1) (prevNext := m.nextRowId) (reserve := reserveOf op) hok
      rw [hm'] at hb
      cases hb
    · rename_i e' hd
      cases op with
      | append frags =>
        obtain ⟨r, e⟩ := assignOpt_total hv m.nextRowId (startFid m)
        simp only [arm] at hd
        split at hd
        · cases hd
        · rename_i e2 he
          exact absurd (e.symm.trans he) (by simp)
      | overwrite c schema frags =>
        obtain ⟨r, e⟩ := assignOpt_total hv.2 m.nextRowId 0
        simp only [arm] at hd
        split at hd
        · cases hd
        · rename_i e2 he
          exact absurd (e.symm.trans he) (by simp)
      | update rm upd new fm fp rr =>
        obtain ⟨r, e⟩ := assignOpt_total hv.2 m.nextRowId (startFid m)
        simp only [arm] at hd
        split at hd
        · cases hd
        · rename_i e2 he
          exact absurd (e.symm.trans he) (by simp)
      | rewrite groups rw' => exact hnr groups rw' rfl
      | delete upd del => simp only [arm] at hd; cases hd
      | merge schema frags => simp only [arm] at hd; cases hd
      | project schema => simp only [arm] at hd; cases hd
      | createIndex new rmv => simp only [arm] at hd; cases hd
      | reserve n => simp only [arm] at hd; cases hd
      | config => simp only [arm] at hd; cases hd

/-- `restore_old_manifest`: an old well-formed version republished with the latest high-water marks -/
theorem wf_restore {old latest : Manifest} (hw : WF old) : WF (restoreOld old latest) := by
  obtain ⟨h1, h2, h3, h4, h5, h6, h7⟩ := hw
  have hmono : ∀ i, LeMax old.maxFrag i → LeMax (restoreOld old latest).maxFrag i := by
    intro i hi
    simp only [restoreOld]
    cases ho : old.maxFrag with
    | none => rw [ho] at hi; exact absurd hi leMax_none
    | some a =>
      rw [ho] at hi
      rw [leMax_some] at hi
      cases latest.maxFrag with
      | none => simp only; rw [leMax_some]; exact hi
      | some b => simp only; rw [leMax_some]; omega
  exact ⟨h1, h2, h3, fun f hf => hmono _ (h4 f hf), fun ix hix => ⟨(h5 ix hix).1, fun i hi => hmono _ ((h5 ix hix).2 i hi)⟩,
    h6, h7⟩

theorem mem_findVersion {v : Nat} {h : Hist} {m : Manifest} (hf : findVersion v h = some m) : m ∈ h := by
  induction h with
  | nil => cases hf
  | cons x xs ih =>
    simp only [findVersion] at hf
    split at hf
    · cases hf; simp
    · exact List.mem_cons_of_mem _ (ih hf)

/-- one commit keeps every version of the dataset well formed -/
theorem wf_commit {h h' : Hist} {s : Step} (hw : ∀ m ∈ h, WF m) (hv : StepValid h s) (hc : commit h s = .ok h') :
    ∀ m ∈ h', WF m := by
  cases s with
  | txn op =>
    simp only [commit] at hc
    split at hc
    · rename_i m' hb
      cases hc
      intro m hm
      rcases List.mem_cons.1 hm with rfl | hm
      · cases h with
        | nil => exact wf_init hv hb
        | cons x xs => exact wf_step (hw x (by simp)) hv hb
      · exact hw m hm
    · cases hc
  | restore v =>
    simp only [commit] at hc
    cases h with
    | nil => cases hc
    | cons latest rest =>
      simp only at hc
      split at hc
      · cases hc
      · rename_i old ho
        cases hc
        intro m hm
        rcases List.mem_cons.1 hm with rfl | hm
        · exact wf_restore (hw old (mem_findVersion ho))
        · exact hw m hm

/-- the precondition of a whole history: every step is valid against the versions that exist when it runs -/
def HistValid : Hist → List Step → Prop
  | _, [] => True
  | h, s :: ss => StepValid h s ∧ HistValid (match commit h s with | .ok h' => h' | .error _ => h) ss

instance instDecidableHistValid : (h : Hist) → (steps : List Step) → Decidable (HistValid h steps)
  | _, [] => isTrue trivial
  | h, s :: ss =>
    have := instDecidableHistValid (match commit h s with | .ok h' => h' | .error _ => h) ss
    inferInstanceAs (Decidable (StepValid h s ∧ HistValid _ ss))

/-- lifted to ALL histories (any length, any mix of operations and restores) by induction -/
theorem wf_history (steps : List Step) (h : Hist) (hw : ∀ m ∈ h, WF m) (hv : HistValid h steps) :
    ∀ m ∈ run h steps, WF m := by
  induction steps generalizing h with
  | nil => exact hw
  | cons s ss ih =>
    simp only [run]
    obtain ⟨hs, hrest⟩ := hv
    cases hc : commit h s with
    | ok h' => rw [hc] at hrest; exact ih h' (wf_commit hw hs hc) hrest
    | error e => rw [hc] at hrest; exact ih h hw hrest

/-- every version reachable from the empty table is well formed -/
theorem wf_reachable (steps : List Step) (hv : HistValid [] steps) : ∀ m ∈ run [] steps, WF m :=
  wf_history steps [] (by simp) hv

/-! ### the clauses of the property, read off `WF` -/

/-- no schema field is stored by two data files (or twice in one) of the same fragment -/
theorem wf_field_once {m : Manifest} (hw : WF m) {f : Frag} (hf : f ∈ m.frags) {x : Int} (hx : x ∈ m.schema) :
    f.files.flatten.count x ≤ 1 := by
  have h0 : 0 ≤ x := hw.1.2 x hx
  have hn := (hw.2.1 f hf).1.2.1
  have := List.nodup_iff_count.1 hn x
  unfold liveIds at this
  rwa [List.count_filter (by simpa using h0)] at this

/-- deletion vectors only name existing row positions, so at most `physical_rows` of them -/
theorem wf_deletions {m : Manifest} (hw : WF m) {f : Frag} (hf : f ∈ m.frags) :
    (∀ o ∈ f.dels, o < f.rows) ∧ f.dels.length ≤ f.rows := by
  obtain ⟨_, _, h3, h4⟩ := (hw.2.1 f hf).1
  refine ⟨h3, ?_⟩
  have := List.Nodup.length_le_of_subset h4 (l₂ := List.range f.rows) (fun o ho => List.mem_range.2 (h3 o ho))
  simpa using this

/-- fragment ids are unique, ordered and not above the recorded maximum -/
theorem wf_fragment_ids {m : Manifest} (hw : WF m) :
    (fragIds m.frags).Nodup ∧ (fragIds m.frags).Pairwise (· < ·) ∧ ∀ f ∈ m.frags, LeMax m.maxFrag f.id :=
  ⟨nodup_of_pairwise_lt hw.2.2.1, hw.2.2.1, hw.2.2.2.1⟩

/-- with stable row ids every fragment carries exactly one row id per row -/
theorem wf_row_ids {m : Manifest} (hw : WF m) (hs : m.stable = true) {f : Frag} (hf : f ∈ m.frags) :
    f.rid = some f.rows := by
  have := (hw.2.1 f hf).2
  simpa [hs] using this

/-- index metadata only names fields in the schema (and fragment ids that were handed out) -/
theorem wf_index_fields {m : Manifest} (hw : WF m) {ix : Index} (hix : ix ∈ m.indices) :
    (∀ x ∈ ix.fields, x ∈ m.schema) ∧ ∀ i ∈ bmIds ix, LeMax m.maxFrag i :=
  hw.2.2.2.2.1 ix hix

/-! ### the checker -/

deriving instance DecidableEq for Except

/-- `Dataset::validate` (with fix 6ca9eca) accepts every well-formed version whose data files are all live -/
theorem validate_complete {m : Manifest} (hw : WF m) (hl : FilesLive m) : validate true m = .ok () := by
  obtain ⟨_, h2, h3, _, _, h6, h7⟩ := hw
  unfold validate
  rw [nodupB_of_nodup (nodup_of_pairwise_lt h3), nondecreasing_of_pairwise h3 (by intro x _; omega),
    validateFrags_ok h2 hl, nodupB_of_nodup h7, overlapping_false h6]
  rfl

/-- at the pinned commit (`skipTomb = false`: the loop rejects every id ≤ −1) the same holds only for versions
    without tombstoned fields -/
theorem validate_unfixed_partial {m : Manifest} (hw : WF m) (hl : FilesLive m)
    (hnt : ∀ f ∈ m.frags, ∀ file ∈ f.files, ∀ x ∈ file, x ≠ -2) : validate false m = .ok () := by
  have := validate_complete hw hl
  unfold validate at this ⊢
  rw [validateFrags_noTomb hnt]
  exact this

/-- the design-spike history: create (k, x, y) with one fragment, one partial-schema merge_insert over (k, x) -/
def spikeHistory : List Step :=
  [ .txn (.overwrite false [0, 1, 2] [{ id := 0, files := [[0, 1, 2]], rows := 4, dels := [], rid := none }]),
    .txn (.update [] [{ id := 0, files := [[-2, -2, 2], [0, 1]], rows := 4, dels := [], rid := none }] [] [0, 1] [] false) ]

/-- … is valid, reaches a well-formed version with live files, and the unfixed checker rejects that version
    (the defect repaired by fix 6ca9eca) -/
theorem validate_unfixed_counterexample :
    HistValid [] spikeHistory ∧
    ∃ m ∈ run [] spikeHistory, WF m ∧ FilesLive m ∧ validate false m = .error .negativeField ∧ validate true m = .ok () := by
  exact ⟨by decide, by decide⟩

/-- what `Dataset::validate` does establish: strictly increasing fragment ids, every data file stores a schema
    field, deletion vectors name existing rows, index uuids are unique -/
theorem validate_sound {m : Manifest} (h : validate true m = .ok ()) :
    (fragIds m.frags).Pairwise (· < ·) ∧ FilesLive m ∧ (∀ f ∈ m.frags, ∀ o ∈ f.dels, o < f.rows) ∧
    (m.indices.map (·.uuid)).Nodup := by
  unfold validate at h
  split at h
  · cases h
  · rename_i h1
    split at h
    · cases h
    · rename_i h2
      split at h
      · cases h
      · rename_i h3
        split at h
        · cases h
        · rename_i h4
          have hn := nodup_of_nodupB (l := fragIds m.frags) (by simpa using h1)
          have hs := (nondecreasing_spec (by simpa using h2)).1
          have hf := validateFrags_sound h3
          refine ⟨?_, fun f hf' => (hf f hf').1, fun f hf' => (hf f hf').2, nodup_of_nodupB (by simpa using h4)⟩
          rw [List.nodup_iff_pairwise_ne] at hn
          exact (hs.and hn).imp (by intro a b ⟨x, y⟩; omega)

/-- … and what it misses: a version it accepts although a schema field id is repeated, a fragment id lies above
    `max_fragment_id`, the row-id sequence is too short and an index names a field that is not in the schema -/
theorem validate_incomplete :
    ∃ m, validate true m = .ok () ∧ ¬ WF m ∧ ¬ SchemaOK m.schema ∧ ¬ (∀ f ∈ m.frags, LeMax m.maxFrag f.id) ∧
      ¬ (∀ f ∈ m.frags, FragOK m.stable f) ∧ ¬ (∀ ix ∈ m.indices, IndexOK m.schema m.maxFrag ix) :=
  ⟨{ version := 1, stable := true, schema := [0, 0, 1],
     frags := [{ id := 5, files := [[0, 1]], rows := 3, dels := [], rid := some 2 }], maxFrag := some 1, nextRowId := 0,
     indices := [{ name := "i", uuid := 0, fields := [7], bitmap := some [0] }] },
   by decide, by decide, by decide, by decide, by decide, by decide⟩

/-! ### the property at full strength -/

/-- C05 as stated: every reachable version is well formed AND validates -/
def C05_full : Prop :=
  ∀ steps : List Step, HistValid [] steps → ∀ m ∈ run [] steps, WF m ∧ validate true m = .ok ()

/-- what the code satisfies: every reachable version is well formed, and validates provided each of its data files
    still stores a field of the schema -/
theorem C05_partial (steps : List Step) (hv : HistValid [] steps) :
    ∀ m ∈ run [] steps, WF m ∧ (FilesLive m → validate true m = .ok ()) :=
  fun m hm => ⟨wf_reachable steps hv m hm, validate_complete (wf_reachable steps hv m hm)⟩

/-- create (c0,c1,c2,c3); drop c1; partial-schema merge_insert over (c0,c2); partial-schema merge_insert over
    (c0,c3): the first data file is left with the dropped column and tombstones only — `build_manifest` keeps it
    (it is not all-tombstone), `FileFragment::validate` cannot open it -/
def deadFileHistory : List Step :=
  [ .txn (.overwrite false [0, 1, 2, 3] [{ id := 0, files := [[0, 1, 2, 3]], rows := 3, dels := [], rid := none }]),
    .txn (.project [0, 2, 3]),
    .txn (.update [] [{ id := 0, files := [[-2, 1, -2, 3], [0, 2]], rows := 3, dels := [], rid := none }] [] [0, 2] [] false),
    .txn (.update [] [{ id := 0, files := [[-2, 1, -2, -2], [-2, 2], [0, 3]], rows := 3, dels := [], rid := none }] [] [0, 3] [] false) ]

theorem C05_full_counterexample : ¬ C05_full := by
  intro h
  exact absurd (h deadFileHistory (by decide)) (by decide)

/-! ### non-vacuity -/

def exManifest : Manifest :=
  { version := 3, stable := true, schema := [0, 1, 2],
    frags := [{ id := 0, files := [[0, -2, 2], [1]], rows := 4, dels := [1], rid := some 4 },
              { id := 2, files := [[0, 1, 2]], rows := 2, dels := [], rid := some 2 }],
    maxFrag := some 3, nextRowId := 9,
    indices := [{ name := "c1_idx", uuid := 0, fields := [1], bitmap := some [0, 1] }] }

example : WF exManifest ∧ FilesLive exManifest := by decide
example : Valid exManifest (.append [{ id := 0, files := [[0, 1, 2]], rows := 3, dels := [], rid := none }]) := by decide
example : Valid exManifest (.delete [{ id := 2, files := [[0, 1, 2]], rows := 2, dels := [0], rid := some 2 }] [0]) := by decide
example : Valid exManifest (.update [] [{ id := 2, files := [[-2, -2, 2], [0, 1]], rows := 2, dels := [], rid := some 2 }]
    [{ id := 0, files := [[0, 1]], rows := 1, dels := [], rid := none }] [0, 1] [] false) := by decide
example : Valid exManifest (.rewrite [([0, 2], [{ id := 3, files := [[0, 1, 2]], rows := 5, dels := [], rid := some 5 }])] []) := by decide
example : Valid exManifest (.merge [0, 1, 2, 3]
    [{ id := 0, files := [[0, -2, 2], [1], [3]], rows := 4, dels := [1], rid := some 4 },
     { id := 2, files := [[0, 1, 2], [3]], rows := 2, dels := [], rid := some 2 }]) := by decide
example : Valid exManifest (.project [0, 2]) := by decide
example : Valid exManifest (.createIndex [{ name := "c2_idx", uuid := 1, fields := [2], bitmap := some [0, 2] }] []) := by decide
example : (buildManifest (some exManifest)
    (.append [{ id := 0, files := [[0, 1, 2]], rows := 3, dels := [], rid := none }])).toOption.map
      (fun m' => (m'.nextRowId, fragIds m'.frags)) = some (12, [0, 2, 4]) := by decide
example : HistValid [] deadFileHistory ∧ (run [] deadFileHistory).length = 4 := by decide
example : HistValid [] (spikeHistory ++ [.restore 1, .txn (.append [{ id := 0, files := [[0, 1, 2]], rows := 1, dels := [], rid := none }])]) := by
  decide

end LanceModel.C05
