import LanceModel.C05.Driver
def main : IO Unit := LanceModel.Util.runDriver LanceModel.C05.Driver.step ([] : LanceModel.C05.Driver.St)
