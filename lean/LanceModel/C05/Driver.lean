import LanceModel.Util
import LanceModel.C05.Model
/-
C05 driver.  One op line (grammar: top of harness/src/bin/c05.rs and harness/src/c05_model.rs)

  <high-level op, opaque> :: <txn> [:: <txn> …]      |   … :: -      |   … :: !

→ `ok <seg> [| <seg> …]` with one segment per transaction
     seg ::= valid=<0|1> v=… st=… sch=… max=… nrid=… frags=… idx=… wf=<0|1> live=<0|1> validate=<ok|class>
  `ok -` (nothing committed), `err` (the op failed), `err parse` (no ` :: `).
The state is the model history (all versions, latest first).  `valid` is the model's `StepValid`, the manifest is the
model's `commit`, `wf` / `live` are `WF` / `FilesLive` decided on the model manifest, `validate` is the model of
`Dataset::validate` (with the tombstone fix: `skipTomb = true`).
-/
namespace LanceModel.C05.Driver
open LanceModel.Util LanceModel.C05

def parseInts (s : String) : Option (List Int) :=
  if s = "_" then some [] else (s.splitOn ",").mapM (·.toInt?)

def parseNats (s : String) : Option (List Nat) :=
  if s = "_" then some [] else (s.splitOn ",").mapM (·.toNat?)

def showInts (l : List Int) : String :=
  if l.isEmpty then "_" else ",".intercalate (l.map toString)

def showNats (l : List Nat) : String :=
  if l.isEmpty then "_" else ",".intercalate (l.map toString)

def parseFile (s : String) : Option (List Int) :=
  if s = "e" then some [] else parseInts s

def parseFrag (s : String) : Option Frag :=
  match s.splitOn ":" with
  | [id, rows, dels, rid, files] => do
    let id ← id.toNat?
    let rows ← rows.toNat?
    let dels ← parseNats dels
    let rid ← (if rid = "n" then some none else rid.toNat?.map some)
    let files ← (if files = "_" then some [] else (files.splitOn "/").mapM parseFile)
    some { id := id, files := files, rows := rows, dels := dels, rid := rid }
  | _ => none

def parseFrags (s : String) : Option (List Frag) :=
  if s = "_" then some [] else (s.splitOn ";").mapM parseFrag

def parseIndex (s : String) : Option Index :=
  match s.splitOn ":" with
  | [name, uuid, fields, bitmap] => do
    let uuid ← uuid.toNat?
    let fields ← parseInts fields
    let bitmap ← (if bitmap = "n" then some none else (parseNats bitmap).map some)
    some { name := name, uuid := uuid, fields := fields, bitmap := bitmap }
  | _ => none

def parseIndices (s : String) : Option (List Index) :=
  if s = "_" then some [] else (s.splitOn ";").mapM parseIndex

def showFrag (f : Frag) : String :=
  toString f.id ++ ":" ++ toString f.rows ++ ":" ++ showNats f.dels ++ ":" ++
    (match f.rid with | none => "n" | some k => toString k) ++ ":" ++
    (if f.files.isEmpty then "_" else "/".intercalate (f.files.map fun x => if x.isEmpty then "e" else showInts x))

def showFrags (fs : List Frag) : String :=
  if fs.isEmpty then "_" else ";".intercalate (fs.map showFrag)

def showIndex (ix : Index) : String :=
  ix.name ++ ":" ++ toString ix.uuid ++ ":" ++ showInts ix.fields ++ ":" ++
    (match ix.bitmap with | none => "n" | some b => showNats (sortNat b).eraseDups)

def showIndices (xs : List Index) : String :=
  if xs.isEmpty then "_" else ";".intercalate (xs.map showIndex)

def showManifest (m : Manifest) : String :=
  "v=" ++ toString m.version ++ " st=" ++ (if m.stable then "1" else "0") ++ " sch=" ++ showInts m.schema ++
    " max=" ++ (match m.maxFrag with | none => "n" | some x => toString x) ++ " nrid=" ++ toString m.nextRowId ++
    " frags=" ++ showFrags m.frags ++ " idx=" ++ showIndices m.indices

def tokVal (key tok : String) : Option String :=
  if tok.startsWith (key ++ "=") then some (String.ofList (tok.toList.drop (key.length + 1))) else none

def parseBool (s : String) : Option Bool :=
  if s = "0" then some false else if s = "1" then some true else none

def parseGroup (s : String) : Option (List Nat × List Frag) :=
  match s.splitOn ">" with
  | [a, b] => do
    let a ← parseNats a
    let b ← parseFrags b
    some (a, b)
  | _ => none

def parsePair (s : String) : Option (Nat × Nat) :=
  match s.splitOn ">" with
  | [a, b] => do
    let a ← a.toNat?
    let b ← b.toNat?
    some (a, b)
  | _ => none

def parseStep (s : String) : Option Step :=
  match splitTokens s with
  | ["overwrite", st, sch, frags] => do
    let st ← (tokVal "s" st) >>= parseBool
    let sch ← (tokVal "sch" sch) >>= parseInts
    let frags ← (tokVal "frags" frags) >>= parseFrags
    some (.txn (.overwrite st sch frags))
  | ["append", frags] => do
    let frags ← (tokVal "frags" frags) >>= parseFrags
    some (.txn (.append frags))
  | ["delete", upd, del] => do
    let upd ← (tokVal "upd" upd) >>= parseFrags
    let del ← (tokVal "del" del) >>= parseNats
    some (.txn (.delete upd del))
  | ["update", rm, upd, new, fm, fp, rr] => do
    let rm ← (tokVal "rm" rm) >>= parseNats
    let upd ← (tokVal "upd" upd) >>= parseFrags
    let new ← (tokVal "new" new) >>= parseFrags
    let fm ← (tokVal "fm" fm) >>= parseInts
    let fp ← (tokVal "fp" fp) >>= parseInts
    let rr ← (tokVal "rr" rr) >>= parseBool
    some (.txn (.update rm upd new fm fp rr))
  | ["rewrite", groups, ri] => do
    let g ← tokVal "groups" groups
    let groups ← (if g = "_" then some [] else (g.splitOn "+").mapM parseGroup)
    let r ← tokVal "ri" ri
    let ri ← (if r = "_" then some [] else (r.splitOn ",").mapM parsePair)
    some (.txn (.rewrite groups ri))
  | ["merge", sch, frags] => do
    let sch ← (tokVal "sch" sch) >>= parseInts
    let frags ← (tokVal "frags" frags) >>= parseFrags
    some (.txn (.merge sch frags))
  | ["project", sch] => do
    let sch ← (tokVal "sch" sch) >>= parseInts
    some (.txn (.project sch))
  | ["createindex", new, rm] => do
    let new ← (tokVal "new" new) >>= parseIndices
    let rm ← (tokVal "rm" rm) >>= parseNats
    some (.txn (.createIndex new rm))
  | ["reserve", n] => do
    let n ← (tokVal "n" n) >>= (·.toNat?)
    some (.txn (.reserve n))
  | ["config"] => some (.txn .config)
  | ["restore", v] => do
    let v ← (tokVal "v" v) >>= (·.toNat?)
    some (.restore v)
  | _ => none

def showVErr : VErr → String
  | .dupFragId => "dupFragId"
  | .unsorted => "unsorted"
  | .negativeField => "negativeField"
  | .dupField => "dupField"
  | .deadFile => "deadFile"
  | .delOutOfRange => "delOutOfRange"
  | .dupIndexId => "dupIndexId"
  | .overlap => "overlap"

def bit (b : Bool) : String := if b then "1" else "0"

def showSeg (valid : Bool) (m : Manifest) : String :=
  "valid=" ++ bit valid ++ " " ++ showManifest m ++ " wf=" ++ bit (decide (WF m)) ++ " live=" ++ bit (decide (FilesLive m))
    ++ " validate=" ++ (match validate true m with | .ok () => "ok" | .error e => showVErr e)

/-- apply the transactions of one op line in turn -/
def runTxns : Hist → List String → List String → Hist × List String
  | h, [], acc => (h, acc.reverse)
  | h, t :: ts, acc =>
    match parseStep t with
    | none => runTxns h ts ("unmodelled" :: acc)
    | some s =>
      match commit h s with
      | .ok h' =>
        match h' with
        | m :: _ => runTxns h' ts (showSeg (decide (StepValid h s)) m :: acc)
        | [] => runTxns h' ts ("empty" :: acc)
      | .error _ => runTxns h ts (("valid=" ++ bit (decide (StepValid h s)) ++ " build_manifest_error") :: acc)

abbrev St := Hist

def step (h : St) (line : String) : St × String :=
  match (line.trimAscii.toString).splitOn " :: " with
  | [] => (h, "err parse")
  | [_] => (h, "err parse")
  | _ :: rest =>
    match rest with
    | ["!"] => (h, "err")
    | ["-"] => (h, "ok -")
    | _ =>
      match runTxns h (rest.map fun s => s.trimAscii.toString) [] with
      | (h', segs) => (h', "ok " ++ " | ".intercalate segs)

end LanceModel.C05.Driver
