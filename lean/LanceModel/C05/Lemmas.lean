import LanceModel.C05.Model
/-
C05 helper lemmas: the tail of `build_manifest` (`finish`) re-establishes `WF` from per-arm facts.
-/
namespace LanceModel.C05

theorem le_maxId {f : Frag} {l : List Frag} (h : f ∈ l) : f.id ≤ maxId l := by
  induction l with
  | nil => cases h
  | cons x xs ih =>
    simp only [maxId]
    rcases List.mem_cons.1 h with rfl | h
    · exact Nat.le_max_left _ _
    · exact Nat.le_trans (ih h) (Nat.le_max_right _ _)

theorem leMax_some {M i : Nat} : LeMax (some M) i ↔ i ≤ M := by simp [LeMax]

theorem leMax_none {i : Nat} : ¬ LeMax none i := by simp [LeMax]

/-- `update_max_fragment_id` never lowers the high-water mark -/
theorem updateMax_mono {cur : Option Nat} {fs : List Frag} {i : Nat} (h : LeMax cur i) : LeMax (updateMax cur fs) i := by
  unfold updateMax
  split
  · exact h
  · cases cur with
    | none => exact absurd h leMax_none
    | some c =>
      simp only
      split
      · rw [leMax_some] at *; omega
      · exact h

/-- … and covers every fragment in the list -/
theorem updateMax_mem {cur : Option Nat} {fs : List Frag} {f : Frag} (h : f ∈ fs) : LeMax (updateMax cur fs) f.id := by
  have hle := le_maxId h
  unfold updateMax
  have hne : fs.isEmpty = false := by cases fs with | nil => cases h | cons _ _ => rfl
  simp only [hne]
  cases cur with
  | none => simp only [Bool.false_eq_true, if_false]; rw [leMax_some]; exact hle
  | some c =>
    simp only [Bool.false_eq_true, if_false]
    split
    · rw [leMax_some]; exact hle
    · rw [leMax_some]; omega

theorem filter_flatten_sublist {α : Type} (p : List α → Bool) (l : List (List α)) :
    ((l.filter p).flatten).Sublist l.flatten := by
  induction l with
  | nil => simp
  | cons x xs ih =>
    simp only [List.filter_cons]
    split
    · simp only [List.flatten_cons]; exact List.Sublist.append (List.Sublist.refl _) ih
    · simp only [List.flatten_cons]; exact List.sublist_append_of_sublist_right ih

/-- dropping data files keeps a fragment sound -/
theorem fragCore_filter_files {f : Frag} (p : List Int → Bool) (h : FragCore f) :
    FragCore { f with files := f.files.filter p } := by
  obtain ⟨h1, h2, h3, h4⟩ := h
  refine ⟨?_, ?_, h3, h4⟩
  · intro file hf x hx
    exact h1 file (List.mem_filter.1 hf).1 x hx
  · exact List.Nodup.sublist (List.Sublist.filter _ (filter_flatten_sublist p f.files)) h2

theorem fragOK_filter_files {st : Bool} {f : Frag} (p : List Int → Bool) (h : FragOK st f) :
    FragOK st { f with files := f.files.filter p } :=
  ⟨fragCore_filter_files p h.1, h.2⟩

theorem fragIds_removeTombstoned (fs : List Frag) : fragIds (removeTombstoned fs) = fragIds fs := by
  simp [fragIds, removeTombstoned, List.map_map, Function.comp_def]

theorem mem_removeTombstoned {fs : List Frag} {g : Frag} (h : g ∈ removeTombstoned fs) :
    ∃ f ∈ fs, g = { f with files := f.files.filter fun file => file.any (· ≠ -2) } := by
  simp only [removeTombstoned, List.mem_map] at h
  obtain ⟨f, hf, rfl⟩ := h
  exact ⟨f, hf, rfl⟩

theorem insertById_perm (x : Frag) (l : List Frag) : (insertById x l).Perm (x :: l) := by
  induction l with
  | nil => exact List.Perm.refl _
  | cons y t ih =>
    simp only [insertById]
    split
    · exact List.Perm.refl _
    · exact (List.Perm.cons y ih).trans (List.Perm.swap x y t)

theorem sortById_perm (fs : List Frag) : (sortById fs).Perm fs := by
  induction fs with
  | nil => exact List.Perm.refl _
  | cons x t ih =>
    simp only [sortById, List.foldr_cons]
    exact (insertById_perm x _).trans (List.Perm.cons x ih)

theorem insertById_sorted (x : Frag) {l : List Frag} (h : l.Pairwise (fun a b => a.id ≤ b.id)) :
    (insertById x l).Pairwise (fun a b => a.id ≤ b.id) := by
  induction l with
  | nil => simp [insertById]
  | cons y t ih =>
    rw [List.pairwise_cons] at h
    simp only [insertById]
    split
    · rename_i hxy
      rw [List.pairwise_cons]
      refine ⟨?_, List.pairwise_cons.2 h⟩
      intro z hz
      rcases List.mem_cons.1 hz with rfl | hz
      · exact hxy
      · exact Nat.le_trans hxy (h.1 z hz)
    · rename_i hxy
      rw [List.pairwise_cons]
      refine ⟨?_, ih h.2⟩
      intro z hz
      rcases List.mem_cons.1 ((insertById_perm x t).mem_iff.1 hz) with rfl | hz
      · omega
      · exact h.1 z hz

theorem sortById_sorted (fs : List Frag) : (sortById fs).Pairwise (fun a b => a.id ≤ b.id) := by
  induction fs with
  | nil => simp [sortById]
  | cons x t ih => simp only [sortById, List.foldr_cons]; exact insertById_sorted x ih

/-- sorting a list with pairwise different ids gives strictly increasing ids -/
theorem sortById_pairwise {fs : List Frag} (h : (fragIds fs).Nodup) : (fragIds (sortById fs)).Pairwise (· < ·) := by
  have hs := sortById_sorted fs
  have hn : (fragIds (sortById fs)).Nodup := ((sortById_perm fs).map (fun f : Frag => f.id)).nodup_iff.2 h
  unfold fragIds at hn ⊢
  rw [List.pairwise_map]
  rw [List.nodup_iff_pairwise_ne, List.pairwise_map] at hn
  exact (hs.and hn).imp (by intro a b ⟨h1, h2⟩; omega)

/-- the per-arm facts from which the tail of `build_manifest` re-establishes `WF` -/
structure DraftOK (stable : Bool) (prevMax : Option Nat) (d : Draft) : Prop where
  schema : SchemaOK d.schema
  frags : ∀ f ∈ d.frags, FragOK stable f
  ids : (fragIds d.frags).Nodup
  ixFields : ∀ ix ∈ d.indices, ∀ x ∈ ix.fields, x ∈ d.schema
  ixBitmap : ∀ ix ∈ d.indices, ∀ i ∈ bmIds ix, LeMax prevMax i ∨ i ∈ fragIds d.frags
  ixNames : (d.indices.map (·.name)).Nodup
  ixUuids : (d.indices.map (·.uuid)).Nodup

theorem any_rid_of_stable {st : Bool} {fs : List Frag} (h : ∀ f ∈ fs, FragOK st f) :
    (st || fs.any (·.rid.isSome)) = st := by
  cases st with
  | true => rfl
  | false =>
    simp only [Bool.false_or]
    rw [List.any_eq_false]
    intro f hf
    have := (h f hf).2
    simp only [Bool.false_eq_true, if_false] at this
    simp [this]

/-- `finish` succeeds on a sound draft and yields a well-formed manifest -/
theorem wf_finish {version : Nat} {prevMax : Option Nat} {prevNext : Nat} {stable : Bool} {reserve : Nat} {d : Draft}
    {m' : Manifest} (hd : DraftOK stable prevMax d)
    (h : finish version prevMax prevNext stable reserve d = .ok m') : WF m' := by
  have hfr : ∀ g ∈ removeTombstoned (sortById d.frags), FragOK stable g := by
    intro g hg
    obtain ⟨f, hf, rfl⟩ := mem_removeTombstoned hg
    exact fragOK_filter_files _ (hd.frags f ((sortById_perm d.frags).mem_iff.1 hf))
  have hst := any_rid_of_stable hfr
  unfold finish at h
  rw [hst] at h
  split at h
  · cases h
  · cases h
    have hmono : ∀ i, LeMax (updateMax prevMax (removeTombstoned (sortById d.frags))) i →
        LeMax (if reserve = 0 then updateMax prevMax (removeTombstoned (sortById d.frags))
               else some ((updateMax prevMax (removeTombstoned (sortById d.frags))).getD 0 + reserve)) i := by
      intro i hi
      split
      · exact hi
      · cases hu : updateMax prevMax (removeTombstoned (sortById d.frags)) with
        | none => rw [hu] at hi; exact absurd hi leMax_none
        | some M => rw [hu] at hi; rw [leMax_some] at *; simp only [Option.getD_some]; omega
    have hidmem : ∀ i, i ∈ fragIds d.frags → ∃ g ∈ removeTombstoned (sortById d.frags), g.id = i := by
      intro i hi
      rw [← fragIds_removeTombstoned, ] at hi
      have : i ∈ fragIds (removeTombstoned (sortById d.frags)) := by
        rw [fragIds_removeTombstoned]
        rw [fragIds_removeTombstoned] at hi
        exact ((sortById_perm d.frags).map (fun f : Frag => f.id)).mem_iff.2 hi
      simp only [fragIds, List.mem_map] at this
      exact this
    refine ⟨hd.schema, hfr, ?_, ?_, ?_, hd.ixNames, hd.ixUuids⟩
    · simp only []
      rw [fragIds_removeTombstoned]
      exact sortById_pairwise hd.ids
    · intro g hg
      exact hmono _ (updateMax_mem hg)
    · intro ix hix
      refine ⟨hd.ixFields ix hix, ?_⟩
      intro i hi
      apply hmono
      rcases hd.ixBitmap ix hix i hi with h1 | h2
      · exact updateMax_mono h1
      · obtain ⟨g, hg, rfl⟩ := hidmem i h2
        exact updateMax_mem hg

end LanceModel.C05
