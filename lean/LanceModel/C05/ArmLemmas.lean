import LanceModel.C05.StepLemmas
/-
C05: one lemma per arm of `build_manifest` — a valid transaction on a well-formed manifest gives a sound draft.
-/
namespace LanceModel.C05

theorem wf_ids_nodup {m : Manifest} (hw : WF m) : (fragIds m.frags).Nodup := nodup_of_pairwise_lt hw.2.2.1

theorem mem_fragIds {fs : List Frag} {f : Frag} (h : f ∈ fs) : f.id ∈ fragIds fs := List.mem_map.2 ⟨f, h, rfl⟩

theorem nextOf (m : Manifest) : (if m.stable then some m.nextRowId else none) = (if m.stable = true then some m.nextRowId else none) := rfl

theorem arm_append {m : Manifest} (hw : WF m) {frags : List Frag} (hv : Valid m (.append frags)) {d : Draft}
    (h : arm m (startFid m) (if m.stable then some m.nextRowId else none) (.append frags) = .ok d) :
    DraftOK m.stable m.maxFrag d := by
  simp only [arm] at h
  split at h
  · rename_i next' new' he
    cases h
    obtain ⟨hok, hids⟩ := newFrags_ok hv he
    obtain ⟨i1, i2, i3, i4⟩ := draft_indices_same hw (IxLike.refl [] m.indices) (m.frags ++ new') (by simp)
    refine ⟨hw.1, ?_, ?_, i1, i2, i3, i4⟩
    · intro f hf
      rcases List.mem_append.1 hf with hf | hf
      · exact hw.2.1 f hf
      · exact hok f hf
    · simp only [fragIds, List.map_append]
      simp only [fragIds] at hids
      rw [hids]
      apply nodup_append_fresh (wf_ids_nodup hw)
      intro i hi
      obtain ⟨f, hf, rfl⟩ := List.mem_map.1 hi
      exact lt_startFid hw hf
  · cases h

theorem arm_overwrite {m : Manifest} (hw : WF m) {c : Bool} {schema : List Int} {frags : List Frag}
    (hv : Valid m (.overwrite c schema frags)) {d : Draft}
    (h : arm m 0 (if m.stable then some m.nextRowId else none) (.overwrite c schema frags) = .ok d) :
    DraftOK m.stable m.maxFrag d := by
  simp only [arm] at h
  split at h
  · rename_i next' new' he
    cases h
    obtain ⟨hok, hids⟩ := newFrags_ok hv.2 he
    refine ⟨hv.1, hok, ?_, by simp, by simp, by simp, by simp⟩
    simp only []
    rw [hids]
    exact List.nodup_range' 1
  · cases h

theorem arm_delete {m : Manifest} (hw : WF m) {upd : List Frag} {del : List Nat} (hv : Valid m (.delete upd del))
    {fid : Nat} {next : Option Nat} {d : Draft} (h : arm m fid next (.delete upd del) = .ok d) :
    DraftOK m.stable m.maxFrag d := by
  simp only [arm] at h
  cases h
  obtain ⟨f1, f2⟩ := filter_map_updated hw rfl (fun f => decide (f.id ∉ del)) (applyUpdatedLast · upd) upd
    (fun f => applyUpdatedLast_spec f upd) hv
  obtain ⟨i1, i2, i3, i4⟩ := draft_indices_retain hw (IxLike.refl [] m.indices) m.schema
    ((m.frags.filter (fun f => decide (f.id ∉ del))).map (applyUpdatedLast · upd)) (by simp)
  exact ⟨hw.1, f1, List.Nodup.sublist f2 (wf_ids_nodup hw), i1, i2, i3, i4⟩

theorem arm_update {m : Manifest} (hw : WF m) {rm : List Nat} {upd new : List Frag} {fm fp : List Int} {rr : Bool}
    (hv : Valid m (.update rm upd new fm fp rr)) {d : Draft}
    (h : arm m (startFid m) (if m.stable then some m.nextRowId else none) (.update rm upd new fm fp rr) = .ok d) :
    DraftOK m.stable m.maxFrag d := by
  simp only [arm] at h
  split at h
  · rename_i next' new' he
    cases h
    obtain ⟨hok, hids⟩ := newFrags_ok hv.2 he
    obtain ⟨f1, f2⟩ := filter_map_updated hw rfl (fun f => decide (f.id ∉ rm)) (applyUpdatedFirst · upd) upd
      (fun f => applyUpdatedFirst_spec f upd) hv.1
    have hlike : IxLike (pureIdsOf new')
        (if m.stable && rr then
          registerPure (pruneUpdated m.indices (fragIds upd) fm) (pureIdsOf new') (rm ++ fragIds upd) fp
         else pruneUpdated m.indices (fragIds upd) fm) m.indices := by
      split
      · exact (registerPure_like _ _ _ _).trans (pruneUpdated_like _ _ _ _)
      · exact pruneUpdated_like _ _ _ _
    obtain ⟨i1, i2, i3, i4⟩ := draft_indices_retain hw hlike m.schema
      ((m.frags.filter (fun f => decide (f.id ∉ rm))).map (applyUpdatedFirst · upd) ++ new') (by
        intro i hi
        simp only [pureIdsOf, List.mem_map, List.mem_filter] at hi
        obtain ⟨f, ⟨hf, _⟩, rfl⟩ := hi
        exact mem_fragIds (List.mem_append.2 (Or.inr hf)))
    refine ⟨hw.1, ?_, ?_, i1, i2, i3, i4⟩
    · intro f hf
      rcases List.mem_append.1 hf with hf | hf
      · exact f1 f hf
      · exact hok f hf
    · simp only [fragIds, List.map_append]
      simp only [fragIds] at hids f2
      rw [hids]
      apply nodup_append_fresh (List.Nodup.sublist f2 (wf_ids_nodup hw))
      intro i hi
      have := f2.subset hi
      obtain ⟨f, hf, rfl⟩ := List.mem_map.1 this
      exact lt_startFid hw hf
  · cases h

theorem arm_createIndex {m : Manifest} (hw : WF m) {new : List Index} {rmv : List Nat}
    (hv : Valid m (.createIndex new rmv)) {fid : Nat} {next : Option Nat} {d : Draft}
    (h : arm m fid next (.createIndex new rmv) = .ok d) : DraftOK m.stable m.maxFrag d := by
  simp only [arm] at h
  cases h
  obtain ⟨hs, hfr, _, hle, hix, hnm, huu⟩ := hw
  obtain ⟨hnew, hnn, hnu⟩ := hv
  refine ⟨hs, hfr, nodup_of_pairwise_lt (by assumption), ?_, ?_, ?_, ?_⟩
  · intro ix h x hx
    rcases List.mem_append.1 h with h | h
    · exact (hix ix (List.mem_filter.1 h).1).1 x hx
    · exact (hnew ix h).1 x hx
  · intro ix h i hi
    rcases List.mem_append.1 h with h | h
    · exact Or.inl ((hix ix (List.mem_filter.1 h).1).2 i hi)
    · exact Or.inr ((hnew ix h).2.1 i hi)
  · simp only [List.map_append]
    rw [List.nodup_append]
    refine ⟨List.Nodup.sublist (List.Sublist.map _ List.filter_sublist) hnm, hnn, ?_⟩
    intro a ha b hb hab
    subst hab
    obtain ⟨ix, hix', rfl⟩ := List.mem_map.1 ha
    obtain ⟨jx, hjx, hjn⟩ := List.mem_map.1 hb
    have := (List.mem_filter.1 hix').2
    simp only [Bool.and_eq_true, Bool.not_eq_true', List.any_eq_false, decide_eq_true_eq] at this
    exact this.1 jx hjx hjn
  · simp only [List.map_append]
    rw [List.nodup_append]
    refine ⟨List.Nodup.sublist (List.Sublist.map _ List.filter_sublist) huu, hnu, ?_⟩
    intro a ha b hb hab
    subst hab
    obtain ⟨ix, hix', rfl⟩ := List.mem_map.1 ha
    obtain ⟨jx, hjx, hjn⟩ := List.mem_map.1 hb
    apply (hnew jx hjx).2.2
    rw [hjn]
    exact List.mem_map.2 ⟨ix, (List.mem_filter.1 hix').1, rfl⟩

theorem arm_keep {m : Manifest} (hw : WF m) : DraftOK m.stable m.maxFrag
    { schema := m.schema, frags := m.frags, indices := m.indices, nextRow := none } := by
  obtain ⟨i1, i2, i3, i4⟩ := draft_indices_same hw (IxLike.refl [] m.indices) m.frags (by simp)
  exact ⟨hw.1, hw.2.1, wf_ids_nodup hw, i1, i2, i3, i4⟩

theorem draftOK_nextRow {st : Bool} {mx : Option Nat} {d : Draft} (n : Option Nat) (h : DraftOK st mx d) :
    DraftOK st mx { d with nextRow := n } := ⟨h.1, h.2, h.3, h.4, h.5, h.6, h.7⟩

theorem arm_merge {m : Manifest} (hw : WF m) {schema : List Int} {frags : List Frag} (hv : Valid m (.merge schema frags))
    {fid : Nat} {next : Option Nat} {d : Draft} (h : arm m fid next (.merge schema frags) = .ok d) :
    DraftOK m.stable m.maxFrag d := by
  simp only [arm] at h
  cases h
  obtain ⟨i1, i2, i3, i4⟩ := draft_indices_retain hw (IxLike.refl [] m.indices) schema frags (by simp)
  exact ⟨hv.1, hv.2.1, hv.2.2, i1, i2, i3, i4⟩

theorem arm_project {m : Manifest} (hw : WF m) {schema : List Int} (hv : Valid m (.project schema))
    {fid : Nat} {next : Option Nat} {d : Draft} (h : arm m fid next (.project schema) = .ok d) :
    DraftOK m.stable m.maxFrag d := by
  simp only [arm] at h
  cases h
  obtain ⟨i1, i2, i3, i4⟩ := draft_indices_retain hw (IxLike.refl [] m.indices) schema
    (m.frags.map fun f => { f with files := f.files.filter fun file => file.any (· ∈ schema) }) (by simp)
  refine ⟨hv, ?_, ?_, i1, i2, i3, i4⟩
  · intro f hf
    obtain ⟨f0, hf0, rfl⟩ := List.mem_map.1 hf
    exact fragOK_filter_files _ (hw.2.1 f0 hf0)
  · have : fragIds (m.frags.map fun f => { f with files := f.files.filter fun file => file.any (· ∈ schema) })
        = fragIds m.frags := by simp [fragIds, List.map_map, Function.comp_def]
    simp only []
    rw [this]
    exact wf_ids_nodup hw

end LanceModel.C05
