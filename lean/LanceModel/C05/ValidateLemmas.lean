import LanceModel.C05.Lemmas
/-
C05: the checker `Dataset::validate` accepts every well-formed version whose data files are all live.
-/
namespace LanceModel.C05

theorem nodupB_of_nodup {α : Type} [DecidableEq α] {l : List α} (h : l.Nodup) : nodupB l = true := by
  induction l with
  | nil => rfl
  | cons x xs ih =>
    rw [List.nodup_cons] at h
    simp only [nodupB, Bool.and_eq_true, Bool.not_eq_true', ih h.2, and_true]
    simpa using h.1

theorem nodup_of_nodupB {α : Type} [DecidableEq α] {l : List α} (h : nodupB l = true) : l.Nodup := by
  induction l with
  | nil => exact List.nodup_nil
  | cons x xs ih =>
    simp only [nodupB, Bool.and_eq_true, Bool.not_eq_true'] at h
    rw [List.nodup_cons]
    exact ⟨by simpa using h.1, ih h.2⟩

theorem nondecreasing_of_pairwise {l : List Nat} (h : l.Pairwise (· < ·)) {prev : Nat} (hp : ∀ x ∈ l, prev ≤ x) :
    nondecreasing l prev = true := by
  induction l generalizing prev with
  | nil => rfl
  | cons x xs ih =>
    rw [List.pairwise_cons] at h
    have hx := hp x (by simp)
    simp only [nondecreasing]
    rw [if_neg (by omega)]
    exact ih h.2 (fun y hy => Nat.le_of_lt (h.1 y hy))

theorem overlapping_false {ixs : List Index} (h : (ixs.map (·.name)).Nodup) : overlapping ixs = false := by
  induction ixs with
  | nil => rfl
  | cons ix rest ih =>
    simp only [List.map_cons, List.nodup_cons] at h
    simp only [overlapping, Bool.or_eq_false_iff, ih h.2, and_true]
    rw [List.any_eq_false]
    intro jx hjx
    have : jx.name ≠ ix.name := by
      intro e
      exact h.1 (e ▸ List.mem_map.2 ⟨jx, hjx, rfl⟩)
    simp [this]

/-- the field loop over one file: with only field ids and tombstones, live ids pairwise different and not seen
    before, the loop accepts and has seen exactly the old ids plus the live ids of the file -/
theorem checkFields_ok {file seen : List Int} (hall : ∀ x ∈ file, 0 ≤ x ∨ x = -2)
    (hn : (file.filter (0 ≤ ·)).Nodup) (hd : ∀ x ∈ file, 0 ≤ x → x ∉ seen) :
    ∃ seen', checkFields true file seen = .ok seen' ∧ ∀ y, y ∈ seen' ↔ y ∈ seen ∨ (y ∈ file ∧ 0 ≤ y) := by
  induction file generalizing seen with
  | nil => exact ⟨seen, rfl, by simp⟩
  | cons x xs ih =>
    have hx := hall x (by simp)
    have hall' : ∀ y ∈ xs, 0 ≤ y ∨ y = -2 := fun y hy => hall y (by simp [hy])
    simp only [checkFields, Bool.true_and, decide_eq_true_eq]
    by_cases ht : x = -2
    · subst ht
      simp only [if_true]
      have hn' : (xs.filter (0 ≤ ·)).Nodup := by simpa [List.filter_cons] using hn
      obtain ⟨s', h1, h2⟩ := ih hall' hn' (fun y hy h0 => hd y (by simp [hy]) h0)
      refine ⟨s', h1, ?_⟩
      intro y
      rw [h2 y]
      constructor
      · rintro (h | ⟨h, h0⟩)
        · exact Or.inl h
        · exact Or.inr ⟨by simp [h], h0⟩
      · rintro (h | ⟨h, h0⟩)
        · exact Or.inl h
        · rcases List.mem_cons.1 h with rfl | h
          · omega
          · exact Or.inr ⟨h, h0⟩
    · have h0 : 0 ≤ x := by rcases hx with h | h; exact h; exact absurd h ht
      simp only [ht, if_false]
      rw [if_neg (by omega), if_neg (hd x (by simp) h0)]
      have hn' : x ∉ xs.filter (0 ≤ ·) ∧ (xs.filter (0 ≤ ·)).Nodup := by
        have : (x :: xs).filter (0 ≤ ·) = x :: xs.filter (0 ≤ ·) := by simp [List.filter_cons, h0]
        rw [this, List.nodup_cons] at hn
        exact hn
      obtain ⟨s', h1, h2⟩ := ih (seen := x :: seen) hall' hn'.2 (by
        intro y hy hy0 hc
        rcases List.mem_cons.1 hc with rfl | hc
        · exact hn'.1 (List.mem_filter.2 ⟨hy, by simpa using hy0⟩)
        · exact hd y (by simp [hy]) hy0 hc)
      refine ⟨s', h1, ?_⟩
      intro y
      rw [h2 y]
      constructor
      · rintro (h | ⟨h, hy0⟩)
        · rcases List.mem_cons.1 h with rfl | h
          · exact Or.inr ⟨by simp, h0⟩
          · exact Or.inl h
        · exact Or.inr ⟨by simp [h], hy0⟩
      · rintro (h | ⟨h, hy0⟩)
        · exact Or.inl (by simp [h])
        · rcases List.mem_cons.1 h with rfl | h
          · exact Or.inl (by simp)
          · exact Or.inr ⟨h, hy0⟩

theorem checkFiles_ok {files : List (List Int)} {seen : List Int}
    (hall : ∀ file ∈ files, ∀ x ∈ file, 0 ≤ x ∨ x = -2)
    (hn : (files.flatten.filter (0 ≤ ·)).Nodup) (hd : ∀ x ∈ files.flatten, 0 ≤ x → x ∉ seen) :
    checkFiles true files seen = .ok () := by
  induction files generalizing seen with
  | nil => rfl
  | cons file rest ih =>
    simp only [List.flatten_cons, List.filter_append] at hn
    rw [List.nodup_append] at hn
    obtain ⟨hn1, hn2, hdis⟩ := hn
    obtain ⟨s', h1, h2⟩ := checkFields_ok (hall file (by simp)) hn1
      (fun x hx h0 => hd x (by simp [hx]) h0)
    simp only [checkFiles, h1]
    apply ih (fun f hf => hall f (by simp [hf])) hn2
    intro x hx h0 hc
    rcases (h2 x).1 hc with h | ⟨h, _⟩
    · exact hd x (by simp only [List.flatten_cons, List.mem_append]; exact Or.inr hx) h0 h
    · exact hdis x (List.mem_filter.2 ⟨h, by simpa using h0⟩) x (List.mem_filter.2 ⟨hx, by simpa using h0⟩) rfl

theorem validateFrag_ok {st : Bool} {schema : List Int} {f : Frag} (h : FragOK st f)
    (hl : ∀ file ∈ f.files, ∃ x ∈ file, x ∈ schema) : validateFrag true schema f = .ok () := by
  obtain ⟨⟨h1, h2, h3, _⟩, _⟩ := h
  unfold validateFrag
  rw [checkFiles_ok h1 h2 (by simp)]
  simp only
  have ha : (f.files.all fun file => file.any (· ∈ schema)) = true := by
    rw [List.all_eq_true]
    intro file hf
    rw [List.any_eq_true]
    obtain ⟨x, hx, hs⟩ := hl file hf
    exact ⟨x, hx, by simpa using hs⟩
  have hb : (f.dels.all (· < f.rows)) = true := by
    rw [List.all_eq_true]
    intro o ho
    simpa using h3 o ho
  simp [ha, hb]

theorem validateFrags_ok {st : Bool} {schema : List Int} {fs : List Frag} (h : ∀ f ∈ fs, FragOK st f)
    (hl : ∀ f ∈ fs, ∀ file ∈ f.files, ∃ x ∈ file, x ∈ schema) : validateFrags true schema fs = .ok () := by
  induction fs with
  | nil => rfl
  | cons f rest ih =>
    simp only [validateFrags, validateFrag_ok (h f (by simp)) (hl f (by simp))]
    exact ih (fun g hg => h g (by simp [hg])) (fun g hg => hl g (by simp [hg]))

/-- without tombstones the unfixed loop (`skipTomb = false`) behaves like the fixed one -/
theorem checkFields_noTomb {file seen : List Int} (h : ∀ x ∈ file, x ≠ -2) :
    checkFields false file seen = checkFields true file seen := by
  induction file generalizing seen with
  | nil => rfl
  | cons x xs ih =>
    have hx := h x (by simp)
    simp only [checkFields, Bool.false_and, Bool.true_and, decide_eq_true_eq, hx, if_false, Bool.false_eq_true]
    split
    · rfl
    · split
      · rfl
      · exact ih (fun y hy => h y (by simp [hy]))

theorem checkFiles_noTomb {files : List (List Int)} {seen : List Int} (h : ∀ file ∈ files, ∀ x ∈ file, x ≠ -2) :
    checkFiles false files seen = checkFiles true files seen := by
  induction files generalizing seen with
  | nil => rfl
  | cons file rest ih =>
    simp only [checkFiles, checkFields_noTomb (h file (by simp))]
    split
    · exact ih (fun f hf => h f (by simp [hf]))
    · rfl

theorem validateFrags_noTomb {schema : List Int} {fs : List Frag}
    (h : ∀ f ∈ fs, ∀ file ∈ f.files, ∀ x ∈ file, x ≠ -2) :
    validateFrags false schema fs = validateFrags true schema fs := by
  induction fs with
  | nil => rfl
  | cons f rest ih =>
    simp only [validateFrags, validateFrag, checkFiles_noTomb (h f (by simp))]
    rw [ih (fun g hg => h g (by simp [hg]))]

theorem nondecreasing_spec {l : List Nat} {prev : Nat} (h : nondecreasing l prev = true) :
    l.Pairwise (· ≤ ·) ∧ ∀ x ∈ l, prev ≤ x := by
  induction l generalizing prev with
  | nil => simp
  | cons x xs ih =>
    simp only [nondecreasing] at h
    split at h
    · cases h
    · rename_i hx
      obtain ⟨i1, i2⟩ := ih h
      refine ⟨List.pairwise_cons.2 ⟨i2, i1⟩, ?_⟩
      intro y hy
      rcases List.mem_cons.1 hy with rfl | hy
      · omega
      · have := i2 y hy; omega

/-- what one accepted fragment is known to satisfy -/
theorem validateFrag_sound {skip : Bool} {schema : List Int} {f : Frag} (h : validateFrag skip schema f = .ok ()) :
    (∀ file ∈ f.files, ∃ x ∈ file, x ∈ schema) ∧ ∀ o ∈ f.dels, o < f.rows := by
  unfold validateFrag at h
  split at h
  · cases h
  · split at h
    · cases h
    · rename_i h1
      split at h
      · cases h
      · rename_i h2
        simp only [Bool.not_eq_true, Bool.not_eq_false, Bool.not_eq_false'] at h1 h2
        rw [List.all_eq_true] at h1 h2
        refine ⟨?_, ?_⟩
        · intro file hf
          have := h1 file hf
          rw [List.any_eq_true] at this
          obtain ⟨x, hx, hs⟩ := this
          exact ⟨x, hx, by simpa using hs⟩
        · intro o ho
          simpa using h2 o ho

theorem validateFrags_sound {skip : Bool} {schema : List Int} {fs : List Frag} (h : validateFrags skip schema fs = .ok ()) :
    ∀ f ∈ fs, (∀ file ∈ f.files, ∃ x ∈ file, x ∈ schema) ∧ ∀ o ∈ f.dels, o < f.rows := by
  induction fs with
  | nil => simp
  | cons f rest ih =>
    simp only [validateFrags] at h
    split at h
    · rename_i h1
      intro g hg
      rcases List.mem_cons.1 hg with rfl | hg
      · exact validateFrag_sound h1
      · exact ih h g hg
    · cases h

end LanceModel.C05
