/-
C05 — every committed version is internally well formed.

MODEL of the manifest structure that `Transaction::build_manifest` (rust/lance/src/dataset/transaction.rs)
manipulates, of `build_manifest` itself (one arm per operation), of `restore_old_manifest`, of the well-formedness
predicate `WF`, of what `validate_operation` + the writers guarantee about a transaction (`Valid`), and of the checker
`Dataset::validate` / `FileFragment::validate` / `Dataset::validate_indices` (rust/lance/src/dataset.rs,
rust/lance/src/dataset/fragment.rs).  Import-free (core only) so the driver links natively.

What a model value stands for
  schema      `Schema::fields_pre_order().map(|f| f.id)`            (flattened field-id tree)
  Frag        `lance_table::format::Fragment`: id, `files[i].fields` (field ids, −2 = tombstone), `physical_rows`,
              the offsets of the deletion vector (the manifest stores their number, the deletion file the offsets),
              the LENGTH of the inline row-id sequence (`row_id_meta`), if any
  Index       `IndexMetadata`: name, uuid (first-occurrence number), fields, fragment bitmap (set semantics)
  Manifest    version, FLAG_STABLE_ROW_IDS, schema, fragments, max_fragment_id, next_row_id, index section

Not modelled (see props/C05.json): data-file contents and lengths, created/updated version sequences, config /
metadata maps, base paths, storage format, system indices (frag-reuse, MemWAL), vector indices and delta indices
(several indices of one name), DataReplacement / Clone / UpdateMemWalState / UpdateBases, concurrent rebases.
-/
namespace LanceModel.C05

/-- `Fragment` -/
structure Frag where
  id : Nat
  /-- `files[i].fields` -/
  files : List (List Int)
  /-- `physical_rows` (always `Some` for current writers) -/
  rows : Nat
  /-- offsets named by the deletion vector -/
  dels : List Nat
  /-- length of the row-id sequence, `none` = no `row_id_meta` -/
  rid : Option Nat
  deriving DecidableEq, Repr, Inhabited

/-- `IndexMetadata` -/
structure Index where
  name : String
  uuid : Nat
  fields : List Int
  bitmap : Option (List Nat)
  deriving DecidableEq, Repr, Inhabited

/-- `Manifest` (+ its index section) -/
structure Manifest where
  version : Nat
  stable : Bool
  schema : List Int
  frags : List Frag
  maxFrag : Option Nat
  nextRowId : Nat
  indices : List Index
  deriving DecidableEq, Repr, Inhabited

inductive Err
  | notSupported | internal | invalidInput | conflict | notFound
  deriving DecidableEq, Repr

/-- `Operation` (the variants that change the structure) -/
inductive Op
  /-- `Overwrite{fragments, schema}`; `cfgStable` = `ManifestWriteConfig::use_stable_row_ids`, read only when the
      dataset does not exist yet (for an existing dataset the commit path passes the dataset's own flag) -/
  | overwrite (cfgStable : Bool) (schema : List Int) (frags : List Frag)
  | append (frags : List Frag)
  | delete (updated : List Frag) (deletedIds : List Nat)
  /-- `Update{removed_fragment_ids, updated_fragments, new_fragments, fields_modified,
      fields_for_preserving_frag_bitmap, update_mode == Some(RewriteRows)}` -/
  | update (removed : List Nat) (updated new : List Frag) (fieldsModified fieldsPreserve : List Int) (rewriteRows : Bool)
  /-- `Rewrite{groups (old fragment ids, new fragments), rewritten_indices (old uuid, new uuid)}` -/
  | rewrite (groups : List (List Nat × List Frag)) (rewritten : List (Nat × Nat))
  | merge (schema : List Int) (frags : List Frag)
  | project (schema : List Int)
  | createIndex (new : List Index) (removedUuids : List Nat)
  | reserve (n : Nat)
  /-- `UpdateConfig` & co: no structural change -/
  | config
  deriving DecidableEq, Repr

/-! ### small list helpers -/

def maxId : List Frag → Nat
  | [] => 0
  | f :: fs => max f.id (maxId fs)

def fragIds (fs : List Frag) : List Nat := fs.map (·.id)

/-- RoaringBitmap::insert on a list with set semantics -/
def bmInsert (b : List Nat) (x : Nat) : List Nat := if x ∈ b then b else b ++ [x]

def bmInsertAll (b : List Nat) (xs : List Nat) : List Nat := xs.foldl bmInsert b

/-- RoaringBitmap::remove -/
def bmRemove (b : List Nat) (x : Nat) : List Nat := b.filter (· ≠ x)

def bmRemoveAll (b : List Nat) (xs : List Nat) : List Nat := b.filter (fun y => y ∉ xs)

/-! ### pieces of `build_manifest` -/

/-- `Transaction::fragments_with_ids`: id 0 means "not assigned yet" -/
def fragsWithIds : List Frag → Nat → List Frag × Nat
  | [], n => ([], n)
  | f :: fs, n =>
    if f.id = 0 then (({ f with id := n }) :: (fragsWithIds fs (n + 1)).1, (fragsWithIds fs (n + 1)).2)
    else (f :: (fragsWithIds fs n).1, (fragsWithIds fs n).2)

/-- `Transaction::assign_row_ids` on sequence lengths: no meta → a fresh range of `physical_rows` ids; a partial
    sequence (merge_insert) is completed from the counter; more ids than rows is an internal error -/
def assignRowIds : Nat → List Frag → Except Err (Nat × List Frag)
  | n, [] => .ok (n, [])
  | n, f :: fs =>
    match f.rid with
    | none =>
      match assignRowIds (n + f.rows) fs with
      | .ok (n', r) => .ok (n', { f with rid := some f.rows } :: r)
      | .error e => .error e
    | some k =>
      if k = f.rows then
        match assignRowIds n fs with
        | .ok (n', r) => .ok (n', f :: r)
        | .error e => .error e
      else if k < f.rows then
        match assignRowIds (n + (f.rows - k)) fs with
        | .ok (n', r) => .ok (n', { f with rid := some f.rows } :: r)
        | .error e => .error e
      else .error .internal

/-- `Manifest::max_fragment_id()`: the stored high-water mark, else the largest id in the list -/
def maxFragmentId (m : Manifest) : Option Nat :=
  match m.maxFrag with
  | some x => some x
  | none => if m.frags.isEmpty then none else some (maxId m.frags)

/-- `Manifest::update_max_fragment_id` -/
def updateMax (cur : Option Nat) (frags : List Frag) : Option Nat :=
  if frags.isEmpty then cur
  else
    match cur with
    | none => some (maxId frags)
    | some c => if maxId frags > c then some (maxId frags) else some c

/-- `Transaction::remove_tombstoned_data_files` -/
def removeTombstoned (fs : List Frag) : List Frag :=
  fs.map fun f => { f with files := f.files.filter fun file => file.any (· ≠ -2) }

/-- insertion before the first entry with an id that is not smaller -/
def insertById (x : Frag) : List Frag → List Frag
  | [] => [x]
  | y :: t => if x.id ≤ y.id then x :: y :: t else y :: insertById x t

/-- `final_fragments.sort_by_key(|frag| frag.id)` (stable; insertion sort from the right is stable too) -/
def sortById (fs : List Frag) : List Frag := fs.foldr insertById []

/-- `Transaction::retain_relevant_indices`, for non-vector, non-system indices with pairwise different names
    (then the per-name retention rule keeps every index): drop the indices that name a field outside the schema -/
def retainRelevant (ixs : List Index) (schema : List Int) : List Index :=
  ixs.filter fun ix => ix.fields.all (· ∈ schema)

/-- `Transaction::prune_updated_fields_from_indices` -/
def pruneUpdated (ixs : List Index) (updatedIds : List Nat) (fieldsModified : List Int) : List Index :=
  if fieldsModified.isEmpty then ixs
  else ixs.map fun ix =>
    if ix.fields.any (· ∈ fieldsModified) then { ix with bitmap := ix.bitmap.map (bmRemoveAll · updatedIds) } else ix

/-- `Transaction::register_pure_rewrite_rows_update_frags_in_indices` -/
def registerPure (ixs : List Index) (pureIds originalIds : List Nat) (fieldsPreserve : List Int) : List Index :=
  if pureIds.isEmpty then ixs
  else ixs.map fun ix =>
    if ix.fields.any (· ∈ fieldsPreserve) then ix
    else
      match ix.bitmap with
      | none => ix
      | some b => if originalIds.all (· ∈ b) then { ix with bitmap := some (bmInsertAll b pureIds) } else ix

/-- `Transaction::collect_pure_rewrite_row_update_frags_ids` -/
def pureIdsOf (fs : List Frag) : List Nat :=
  (fs.filter fun f => f.rid = some f.rows).map (·.id)

/-- `Transaction::recalculate_fragment_bitmap` -/
def recalcBitmap (old : List Nat) : List (List Nat × List Frag) → List Nat → Except Err (List Nat)
  | [], acc => .ok acc
  | (oldIds, newFrags) :: gs, acc =>
    if oldIds.any (· ∈ old) then
      if oldIds.all (· ∈ old) then recalcBitmap old gs (bmInsertAll (bmRemoveAll acc oldIds) (fragIds newFrags))
      else .error .invalidInput
    else recalcBitmap old gs acc

def recalcIndex (groups : List (List Nat × List Frag)) (ix : Index) : Except Err Index :=
  match ix.bitmap with
  | none => .ok ix
  | some b =>
    match recalcBitmap b groups b with
    | .ok b' => .ok { ix with bitmap := some b' }
    | .error e => .error e

def mapExcept {α β : Type} (f : α → Except Err β) : List α → Except Err (List β)
  | [] => .ok []
  | x :: xs =>
    match f x with
    | .error e => .error e
    | .ok y =>
      match mapExcept f xs with
      | .error e => .error e
      | .ok ys => .ok (y :: ys)

/-- one step of `Transaction::handle_rewrite_indices` -/
def rewriteOneIndex (groups : List (List Nat × List Frag)) (oldNew : Nat × Nat) : List Index → Except Err (List Index)
  | [] => .error .invalidInput
  | ix :: rest =>
    if ix.uuid = oldNew.1 then
      match ix.bitmap with
      | none => .error .invalidInput
      | some b =>
        match recalcBitmap b groups b with
        | .ok b' => .ok ({ ix with bitmap := some b', uuid := oldNew.2 } :: rest)
        | .error e => .error e
    else
      match rewriteOneIndex groups oldNew rest with
      | .ok r => .ok (ix :: r)
      | .error e => .error e

/-- `Transaction::handle_rewrite_indices` (the `modified_indices` set rejects a repeated old uuid) -/
def handleRewriteIndices (groups : List (List Nat × List Frag)) : List (Nat × Nat) → List Nat → List Index → Except Err (List Index)
  | [], _, ixs => .ok ixs
  | p :: ps, seen, ixs =>
    if p.1 ∈ seen then .error .invalidInput
    else
      match rewriteOneIndex groups p ixs with
      | .ok ixs' => handleRewriteIndices groups ps (p.1 :: seen) ixs'
      | .error e => .error e

/-- position of the first fragment with the given id -/
def findIdx (id : Nat) : List Frag → Option Nat
  | [] => none
  | f :: fs => if f.id = id then some 0 else (findIdx id fs).map (· + 1)

/-- one group of `Transaction::handle_rewrite_fragments`: the old fragments are replaced in place when they are a
    contiguous run, otherwise removed and the new ones appended -/
def rewriteGroup (final : List Frag) (oldIds : List Nat) (newFrags : List Frag) : Except Err (List Frag) :=
  match oldIds with
  | [] => .error .internal   -- the code indexes `old_fragments[0]`
  | o :: _ =>
    match findIdx o final with
    | none => .error .conflict
    | some start =>
      if fragIds ((final.drop start).take oldIds.length) = oldIds then
        .ok (final.take start ++ newFrags ++ final.drop (start + oldIds.length))
      else .ok (final.filter (fun f => f.id ∉ oldIds) ++ newFrags)

/-- `Transaction::handle_rewrite_fragments` -/
def handleRewriteFragments : List Frag → List (List Nat × List Frag) → Nat → Except Err (List Frag)
  | final, [], _ => .ok final
  | final, (oldIds, newFrags) :: gs, fid =>
    match rewriteGroup final oldIds (fragsWithIds newFrags fid).1 with
    | .ok final' => handleRewriteFragments final' gs (fragsWithIds newFrags fid).2
    | .error e => .error e

/-- `Delete` arm: every updated fragment with a matching id overwrites the entry (the last one wins) -/
def applyUpdatedLast (f : Frag) (updated : List Frag) : Frag :=
  updated.foldl (fun cur u => if u.id = cur.id then u else cur) f

/-- `Update` arm: `updated_fragments.iter().find(|uf| uf.id == f.id)` (the first one wins) -/
def applyUpdatedFirst (f : Frag) (updated : List Frag) : Frag :=
  match updated.find? (fun u => u.id = f.id) with
  | some u => u
  | none => f

/-- everything `build_manifest` computes per operation arm -/
structure Draft where
  schema : List Int
  frags : List Frag
  indices : List Index
  nextRow : Option Nat

def assignOpt (next : Option Nat) (fs : List Frag) : Except Err (Option Nat × List Frag) :=
  match next with
  | none => .ok (none, fs)
  | some n =>
    match assignRowIds n fs with
    | .ok (n', fs') => .ok (some n', fs')
    | .error e => .error e

/-- the `match &self.operation` of `build_manifest` for an existing dataset `m`;
    `fid` = first free fragment id, `next` = the row-id counter when stable row ids are on -/
def arm (m : Manifest) (fid : Nat) (next : Option Nat) : Op → Except Err Draft
  | .append frags =>
    match assignOpt next (fragsWithIds frags fid).1 with
    | .ok (next', new') => .ok { schema := m.schema, frags := m.frags ++ new', indices := m.indices, nextRow := next' }
    | .error e => .error e
  | .delete updated deletedIds =>
    .ok { schema := m.schema,
          frags := (m.frags.filter (fun f => f.id ∉ deletedIds)).map (applyUpdatedLast · updated),
          indices := retainRelevant m.indices m.schema, nextRow := next }
  | .update removed updated new fieldsModified fieldsPreserve rewriteRows =>
    match assignOpt next (fragsWithIds new fid).1 with
    | .ok (next', new') =>
      .ok { schema := m.schema,
            frags := (m.frags.filter (fun f => f.id ∉ removed)).map (applyUpdatedFirst · updated) ++ new',
            indices :=
              retainRelevant
                (if m.stable && rewriteRows then
                  registerPure (pruneUpdated m.indices (fragIds updated) fieldsModified) (pureIdsOf new')
                    (removed ++ fragIds updated) fieldsPreserve
                 else pruneUpdated m.indices (fragIds updated) fieldsModified)
                m.schema,
            nextRow := next' }
    | .error e => .error e
  | .overwrite _ schema frags =>
    match assignOpt next (fragsWithIds frags fid).1 with
    | .ok (next', new') => .ok { schema := schema, frags := new', indices := [], nextRow := next' }
    | .error e => .error e
  | .rewrite groups rewritten =>
    match handleRewriteFragments m.frags groups fid with
    | .error e => .error e
    | .ok final =>
      match (if next.isSome then mapExcept (recalcIndex groups) m.indices
             else handleRewriteIndices groups rewritten [] m.indices) with
      | .ok ixs => .ok { schema := m.schema, frags := final, indices := ixs, nextRow := next }
      | .error e => .error e
  | .createIndex new removedUuids =>
    .ok { schema := m.schema, frags := m.frags,
          indices := (m.indices.filter fun ix => !(new.any (·.name = ix.name)) && !(removedUuids.any (· = ix.uuid))) ++ new,
          nextRow := next }
  | .reserve _ => .ok { schema := m.schema, frags := m.frags, indices := m.indices, nextRow := next }
  | .config => .ok { schema := m.schema, frags := m.frags, indices := m.indices, nextRow := next }
  | .merge schema frags =>
    .ok { schema := schema, frags := frags, indices := retainRelevant m.indices schema, nextRow := next }
  | .project schema =>
    .ok { schema := schema,
          frags := m.frags.map fun f => { f with files := f.files.filter fun file => file.any (· ∈ schema) },
          indices := retainRelevant m.indices schema, nextRow := next }

def isOverwrite : Op → Bool
  | .overwrite .. => true
  | _ => false

/-- the tail of `build_manifest`: sort, drop all-tombstone files, `Manifest::new_from_previous` / `Manifest::new`,
    `apply_feature_flags` (stable row ids ⇒ every fragment carries a sequence), `update_max_fragment_id`,
    `ReserveFragments`, `next_row_id` -/
def finish (version : Nat) (prevMax : Option Nat) (prevNext : Nat) (cfgStable : Bool) (reserve : Nat) (d : Draft) :
    Except Err Manifest :=
  if (cfgStable || (removeTombstoned (sortById d.frags)).any (·.rid.isSome))
      && !((removeTombstoned (sortById d.frags)).all (·.rid.isSome)) then .error .invalidInput
  else
    .ok { version := version,
          stable := cfgStable || (removeTombstoned (sortById d.frags)).any (·.rid.isSome),
          schema := d.schema,
          frags := removeTombstoned (sortById d.frags),
          maxFrag :=
            if reserve = 0 then updateMax prevMax (removeTombstoned (sortById d.frags))
            else some ((updateMax prevMax (removeTombstoned (sortById d.frags))).getD 0 + reserve),
          nextRowId := match d.nextRow with | some n => n | none => prevNext,
          indices := d.indices }

def reserveOf : Op → Nat
  | .reserve n => n
  | _ => 0

/-- `Transaction::build_manifest(current_manifest, current_indices, …)` -/
def buildManifest (cur : Option Manifest) (op : Op) : Except Err Manifest :=
  match cur with
  | none =>
    match op with
    | .overwrite cfgStable schema frags =>
      -- `(None, true) => Some(0)`, `(_, false) => None`; fragment ids start at 0
      match assignOpt (if cfgStable then some 0 else none) (fragsWithIds frags 0).1 with
      | .ok (next', new') =>
        finish 1 none 0 cfgStable 0 { schema := schema, frags := new', indices := [], nextRow := next' }
      | .error e => .error e
    | _ => .error .internal   -- "Cannot create a new dataset without a schema" / no current manifest
  | some m =>
    match arm m (if isOverwrite op then 0 else match maxFragmentId m with | some x => x + 1 | none => 0)
              (if m.stable then some m.nextRowId else none) op with
    | .ok d => finish (m.version + 1) m.maxFrag m.nextRowId m.stable (reserveOf op) d
    | .error e => .error e

/-- `Transaction::restore_old_manifest` followed by `manifest.version = target_version`: the old manifest with the
    high-water marks of the latest one (fix 0b56cc4) -/
def restoreOld (old latest : Manifest) : Manifest :=
  { old with version := latest.version + 1,
             nextRowId := max old.nextRowId latest.nextRowId,
             maxFrag :=
               match old.maxFrag, latest.maxFrag with
               | some a, some b => some (max a b)
               | some a, none => some a
               | none, b => b }

/-! ### histories -/

/-- a step of a history: a transaction, or `Restore{version}` -/
inductive Step
  | txn (op : Op)
  | restore (version : Nat)
  deriving DecidableEq, Repr

/-- the versions of a dataset, latest first -/
abbrev Hist := List Manifest

def findVersion (v : Nat) : Hist → Option Manifest
  | [] => none
  | m :: ms => if m.version = v then some m else findVersion v ms

/-- `commit_transaction` without concurrent writers -/
def commit (h : Hist) : Step → Except Err Hist
  | .txn op =>
    match buildManifest h.head? op with
    | .ok m' => .ok (m' :: h)
    | .error e => .error e
  | .restore v =>
    match h with
    | [] => .error .invalidInput
    | latest :: _ =>
      match findVersion v h with
      | none => .error .notFound
      | some old => .ok (restoreOld old latest :: h)

/-- run a history; a failed commit leaves the dataset unchanged -/
def run : Hist → List Step → Hist
  | h, [] => h
  | h, s :: ss =>
    match commit h s with
    | .ok h' => run h' ss
    | .error _ => run h ss

/-! ### well-formedness -/

/-- the field ids ≥ 0 stored by a fragment (tombstones left out) -/
def liveIds (f : Frag) : List Int := f.files.flatten.filter (0 ≤ ·)

/-- `i` is a fragment id that has been handed out: not above the recorded maximum -/
def LeMax (mx : Option Nat) (i : Nat) : Prop :=
  match mx with
  | some M => i ≤ M
  | none => False

instance (mx : Option Nat) (i : Nat) : Decidable (LeMax mx i) := by
  unfold LeMax; split <;> infer_instance

/-- the fragment ids an index claims (`none` = unknown, claims nothing) -/
def bmIds (ix : Index) : List Nat :=
  match ix.bitmap with
  | some b => b
  | none => []

/-- the structural part shared by committed and freshly written fragments: every stored id is a field id or the
    tombstone; no field id stored twice; the deletion vector names existing rows, each once -/
def FragCore (f : Frag) : Prop :=
  (∀ file ∈ f.files, ∀ x ∈ file, 0 ≤ x ∨ x = -2) ∧ (liveIds f).Nodup ∧ (∀ o ∈ f.dels, o < f.rows) ∧ f.dels.Nodup

instance (f : Frag) : Decidable (FragCore f) := by unfold FragCore; infer_instance

/-- one committed fragment: `FragCore`, and with stable row ids exactly one row id per row (without: none) -/
def FragOK (stable : Bool) (f : Frag) : Prop :=
  FragCore f ∧ f.rid = (if stable then some f.rows else none)

instance (stable : Bool) (f : Frag) : Decidable (FragOK stable f) := by unfold FragOK; infer_instance

/-- index metadata names schema fields only, and only fragment ids handed out so far -/
def IndexOK (schema : List Int) (maxFrag : Option Nat) (ix : Index) : Prop :=
  (∀ x ∈ ix.fields, x ∈ schema) ∧ (∀ i ∈ bmIds ix, LeMax maxFrag i)

instance (schema : List Int) (maxFrag : Option Nat) (ix : Index) : Decidable (IndexOK schema maxFrag ix) := by
  unfold IndexOK; infer_instance

def SchemaOK (s : List Int) : Prop := s.Nodup ∧ ∀ x ∈ s, 0 ≤ x

instance (s : List Int) : Decidable (SchemaOK s) := by unfold SchemaOK; infer_instance

/-- C05: the well-formedness of one committed version -/
def WF (m : Manifest) : Prop :=
  SchemaOK m.schema ∧
  (∀ f ∈ m.frags, FragOK m.stable f) ∧
  (fragIds m.frags).Pairwise (· < ·) ∧
  (∀ f ∈ m.frags, LeMax m.maxFrag f.id) ∧
  (∀ ix ∈ m.indices, IndexOK m.schema m.maxFrag ix) ∧
  (m.indices.map (·.name)).Nodup ∧ (m.indices.map (·.uuid)).Nodup

instance (m : Manifest) : Decidable (WF m) := by unfold WF; infer_instance

/-- every data file still stores a field of the schema (what `FileFragment::validate` needs to open it) -/
def FilesLive (m : Manifest) : Prop :=
  ∀ f ∈ m.frags, ∀ file ∈ f.files, ∃ x ∈ file, x ∈ m.schema

instance (m : Manifest) : Decidable (FilesLive m) := by unfold FilesLive; infer_instance

/-! ### the checker: `Dataset::validate` -/

inductive VErr
  | dupFragId | unsorted | negativeField | dupField | deadFile | delOutOfRange | dupIndexId | overlap
  deriving DecidableEq, Repr

/-- the field loop of `FileFragment::validate` over one file: `last` is never advanced in the code, so the
    "increasing order" test rejects exactly the ids ≤ −1; `skipTomb` = fix (tombstones are skipped) -/
def checkFields (skipTomb : Bool) : List Int → List Int → Except VErr (List Int)
  | [], seen => .ok seen
  | x :: xs, seen =>
    if skipTomb && x = -2 then checkFields skipTomb xs seen
    else if x ≤ -1 then .error .negativeField
    else if x ∈ seen then .error .dupField
    else checkFields skipTomb xs (x :: seen)

def checkFiles (skipTomb : Bool) : List (List Int) → List Int → Except VErr Unit
  | [], _ => .ok ()
  | file :: rest, seen =>
    match checkFields skipTomb file seen with
    | .ok seen' => checkFiles skipTomb rest seen'
    | .error e => .error e

/-- `FileFragment::validate` (structure only: file lengths are not modelled) -/
def validateFrag (skipTomb : Bool) (schema : List Int) (f : Frag) : Except VErr Unit :=
  match checkFiles skipTomb f.files [] with
  | .error e => .error e
  | .ok () =>
    if !(f.files.all fun file => file.any (· ∈ schema)) then .error .deadFile
    else if !(f.dels.all (· < f.rows)) then .error .delOutOfRange
    else .ok ()

def validateFrags (skipTomb : Bool) (schema : List Int) : List Frag → Except VErr Unit
  | [] => .ok ()
  | f :: fs =>
    match validateFrag skipTomb schema f with
    | .ok () => validateFrags skipTomb schema fs
    | .error e => .error e

def nondecreasing : List Nat → Nat → Bool
  | [], _ => true
  | x :: xs, prev => if x < prev then false else nondecreasing xs x

/-- `detect_overlapping_fragments`: two indices of one name share a fragment id -/
def overlapping : List Index → Bool
  | [] => false
  | ix :: rest =>
    (rest.any fun jx => jx.name = ix.name &&
      (match ix.bitmap, jx.bitmap with
       | some a, some b => a.any (· ∈ b)
       | _, _ => false)) || overlapping rest

def nodupB {α : Type} [DecidableEq α] : List α → Bool
  | [] => true
  | x :: xs => !(xs.contains x) && nodupB xs

/-- `Dataset::validate` -/
def validate (skipTomb : Bool) (m : Manifest) : Except VErr Unit :=
  if !(nodupB (fragIds m.frags)) then .error .dupFragId
  else if !(nondecreasing (fragIds m.frags) 0) then .error .unsorted
  else
    match validateFrags skipTomb m.schema m.frags with
    | .error e => .error e
    | .ok () =>
      if !(nodupB (m.indices.map (·.uuid))) then .error .dupIndexId
      else if overlapping m.indices then .error .overlap
      else .ok ()

/-! ### what `validate_operation` and the writers guarantee about a transaction -/

/-- a fragment as a writer hands it over: `FragCore`; a row-id sequence, if present, is not longer than the
    fragment (`assign_row_ids` completes it); without stable row ids there is none -/
def NewFragOK (stable : Bool) (f : Frag) : Prop :=
  FragCore f ∧
  (match f.rid with
   | none => True
   | some k => stable = true ∧ k ≤ f.rows)

instance (stable : Bool) (f : Frag) : Decidable (NewFragOK stable f) := by
  unfold NewFragOK; split <;> infer_instance

/-- the precondition of `build_manifest` on a transaction against the current manifest `m`:
    * new fragments (Append / Update / Overwrite) carry id 0 (= unassigned) and are structurally sound;
    * updated fragments (Delete / Update) are sound committed fragments;
    * Rewrite: the new fragments carry RESERVED ids (non-zero, pairwise different, not in use, not above the
      recorded maximum — `reserve_fragment_ids`), and the uuids of remapped indices are fresh;
    * Merge hands over the complete fragment list: sound, ids pairwise different;
    * Overwrite / Merge / Project schemas have unique non-negative ids;
    * CreateIndex: new indices name schema fields, cover existing fragments, have fresh uuids and distinct names. -/
def Valid (m : Manifest) : Op → Prop
  | .append frags => (∀ f ∈ frags, f.id = 0 ∧ NewFragOK m.stable f)
  | .delete updated _ => (∀ f ∈ updated, FragOK m.stable f)
  | .update _ updated new _ _ _ =>
    (∀ f ∈ updated, FragOK m.stable f) ∧ (∀ f ∈ new, f.id = 0 ∧ NewFragOK m.stable f)
  | .overwrite _ schema frags => SchemaOK schema ∧ (∀ f ∈ frags, f.id = 0 ∧ NewFragOK m.stable f)
  | .rewrite groups rewritten =>
    (∀ g ∈ groups, ∀ f ∈ g.2, f.id ≠ 0 ∧ FragOK m.stable f ∧ f.id ∉ fragIds m.frags ∧ LeMax m.maxFrag f.id) ∧
    (fragIds (groups.flatMap (·.2))).Nodup ∧
    (∀ p ∈ rewritten, p.2 ∉ m.indices.map (·.uuid)) ∧ (rewritten.map (·.2)).Nodup
  | .merge schema frags =>
    SchemaOK schema ∧ (∀ f ∈ frags, FragOK m.stable f) ∧ (fragIds frags).Nodup
  | .project schema => SchemaOK schema
  | .createIndex new _ =>
    (∀ ix ∈ new, (∀ x ∈ ix.fields, x ∈ m.schema) ∧ (∀ i ∈ bmIds ix, i ∈ fragIds m.frags) ∧
        ix.uuid ∉ m.indices.map (·.uuid)) ∧
    (new.map (·.name)).Nodup ∧ (new.map (·.uuid)).Nodup
  | .reserve _ => True
  | .config => True

instance (m : Manifest) (op : Op) : Decidable (Valid m op) := by
  cases op <;> (unfold Valid; infer_instance)

/-- the precondition for creating a dataset -/
def ValidCreate : Op → Prop
  | .overwrite cfgStable schema frags => SchemaOK schema ∧ (∀ f ∈ frags, f.id = 0 ∧ NewFragOK cfgStable f)
  | _ => False

instance (op : Op) : Decidable (ValidCreate op) := by
  cases op <;> (unfold ValidCreate; infer_instance)

/-- the precondition of one step of a history -/
def StepValid : Hist → Step → Prop
  | [], .txn op => ValidCreate op
  | m :: _, .txn op => Valid m op
  | _, .restore _ => True

instance (h : Hist) (s : Step) : Decidable (StepValid h s) := by
  cases s <;> cases h <;> (unfold StepValid; infer_instance)

end LanceModel.C05
