import LanceModel.C05.Lemmas
/-
C05 step lemmas: each arm of `build_manifest` produces a sound draft (`DraftOK`) from a well-formed manifest and a
valid transaction.
-/
namespace LanceModel.C05

/-! ### fragment ids -/

theorem nodup_of_pairwise_lt {l : List Nat} (h : l.Pairwise (· < ·)) : l.Nodup := by
  rw [List.nodup_iff_pairwise_ne]
  exact h.imp (by intro a b hab; omega)

def startFid (m : Manifest) : Nat :=
  match maxFragmentId m with
  | some x => x + 1
  | none => 0

/-- the first free fragment id is above every fragment of a well-formed manifest -/
theorem lt_startFid {m : Manifest} (hw : WF m) {f : Frag} (hf : f ∈ m.frags) : f.id < startFid m := by
  have h := hw.2.2.2.1 f hf
  unfold startFid maxFragmentId
  cases hm : m.maxFrag with
  | none => rw [hm] at h; exact absurd h leMax_none
  | some M => rw [hm] at h; rw [leMax_some] at h; simp only; omega

theorem fragsWithIds_zero {fs : List Frag} (h : ∀ f ∈ fs, f.id = 0) (n : Nat) :
    fragIds (fragsWithIds fs n).1 = List.range' n fs.length ∧
    ∀ g ∈ (fragsWithIds fs n).1, ∃ f ∈ fs, g = { f with id := g.id } := by
  induction fs generalizing n with
  | nil => simp [fragsWithIds, fragIds]
  | cons x xs ih =>
    have hx : x.id = 0 := h x (by simp)
    have ih' := ih (fun f hf => h f (by simp [hf])) (n + 1)
    simp only [fragsWithIds, hx, if_true]
    refine ⟨?_, ?_⟩
    · simp only [fragIds, List.map_cons, List.length_cons, List.range'_succ]
      have := ih'.1
      simp only [fragIds] at this
      rw [this]
    · intro g hg
      rcases List.mem_cons.1 hg with rfl | hg
      · exact ⟨x, by simp, rfl⟩
      · obtain ⟨f, hf, e⟩ := ih'.2 g hg
        exact ⟨f, by simp [hf], e⟩

theorem fragsWithIds_nonzero {fs : List Frag} (h : ∀ f ∈ fs, f.id ≠ 0) (n : Nat) : fragsWithIds fs n = (fs, n) := by
  induction fs generalizing n with
  | nil => rfl
  | cons x xs ih =>
    have hx : x.id ≠ 0 := h x (by simp)
    simp only [fragsWithIds, hx, if_false]
    rw [ih (fun f hf => h f (by simp [hf]))]

theorem newFragOK_id {st : Bool} {f : Frag} {n : Nat} (h : NewFragOK st f) : NewFragOK st { f with id := n } := h

/-- `assign_row_ids` completes every sequence and keeps ids and structure -/
theorem assignRowIds_ok {fs : List Frag} (h : ∀ f ∈ fs, NewFragOK true f) {n n' : Nat} {fs' : List Frag}
    (he : assignRowIds n fs = .ok (n', fs')) : fragIds fs' = fragIds fs ∧ ∀ g ∈ fs', FragOK true g := by
  induction fs generalizing n n' fs' with
  | nil => simp only [assignRowIds] at he; cases he; simp [fragIds]
  | cons x xs ih =>
    have hx := h x (by simp)
    have hxs : ∀ f ∈ xs, NewFragOK true f := fun f hf => h f (by simp [hf])
    unfold assignRowIds at he
    cases hr : x.rid with
    | none =>
      rw [hr] at he
      simp only at he
      cases hrec : assignRowIds (n + x.rows) xs with
      | error e => rw [hrec] at he; cases he
      | ok p =>
        obtain ⟨n2, r⟩ := p
        rw [hrec] at he
        cases he
        obtain ⟨i1, i2⟩ := ih hxs hrec
        refine ⟨by simp only [fragIds, List.map_cons] at *; rw [i1], ?_⟩
        intro g hg
        rcases List.mem_cons.1 hg with rfl | hg
        · exact ⟨hx.1, by simp⟩
        · exact i2 g hg
    | some k =>
      rw [hr] at he
      simp only at he
      have hk : k ≤ x.rows := by
        have := hx.2
        rw [hr] at this
        exact this.2
      split at he
      · rename_i hkeq
        cases hrec : assignRowIds n xs with
        | error e => rw [hrec] at he; cases he
        | ok p =>
          obtain ⟨n2, r⟩ := p
          rw [hrec] at he
          cases he
          obtain ⟨i1, i2⟩ := ih hxs hrec
          refine ⟨by simp only [fragIds, List.map_cons] at *; rw [i1], ?_⟩
          intro g hg
          rcases List.mem_cons.1 hg with rfl | hg
          · exact ⟨hx.1, by simp [hr, hkeq]⟩
          · exact i2 g hg
      · split at he
        · cases hrec : assignRowIds (n + (x.rows - k)) xs with
          | error e => rw [hrec] at he; cases he
          | ok p =>
            obtain ⟨n2, r⟩ := p
            rw [hrec] at he
            cases he
            obtain ⟨i1, i2⟩ := ih hxs hrec
            refine ⟨by simp only [fragIds, List.map_cons] at *; rw [i1], ?_⟩
            intro g hg
            rcases List.mem_cons.1 hg with rfl | hg
            · exact ⟨hx.1, by simp⟩
            · exact i2 g hg
        · omega

/-- new fragments (ids 0, sound) come out of `fragments_with_ids` + `assign_row_ids` as committed fragments with
    the ids `fid, fid+1, …` -/
theorem newFrags_ok {st : Bool} {fs : List Frag} {n fid : Nat} {next' : Option Nat} {new' : List Frag}
    (hv : ∀ f ∈ fs, f.id = 0 ∧ NewFragOK st f)
    (h : assignOpt (if st then some n else none) (fragsWithIds fs fid).1 = .ok (next', new')) :
    (∀ g ∈ new', FragOK st g) ∧ fragIds new' = List.range' fid fs.length := by
  obtain ⟨hids, hmem⟩ := fragsWithIds_zero (fun f hf => (hv f hf).1) fid
  have hnew : ∀ g ∈ (fragsWithIds fs fid).1, NewFragOK st g := by
    intro g hg
    obtain ⟨f, hf, e⟩ := hmem g hg
    rw [e]
    exact newFragOK_id (hv f hf).2
  cases st with
  | false =>
    simp only [Bool.false_eq_true, if_false, assignOpt] at h
    cases h
    refine ⟨?_, hids⟩
    intro g hg
    have hn := hnew g hg
    refine ⟨hn.1, ?_⟩
    have h2 := hn.2
    cases hr : g.rid with
    | none => simp
    | some k => rw [hr] at h2; exact absurd h2.1 (by simp)
  | true =>
    simp only [if_true, assignOpt] at h
    cases hrec : assignRowIds n (fragsWithIds fs fid).1 with
    | error e => rw [hrec] at h; cases h
    | ok p =>
      obtain ⟨n2, r⟩ := p
      rw [hrec] at h
      cases h
      obtain ⟨i1, i2⟩ := assignRowIds_ok hnew hrec
      exact ⟨i2, by rw [i1, hids]⟩

/-- existing fragments followed by freshly numbered ones have pairwise different ids -/
theorem nodup_append_fresh {old : List Nat} {fid len : Nat} (ho : old.Nodup) (hlt : ∀ i ∈ old, i < fid) :
    (old ++ List.range' fid len).Nodup := by
  rw [List.nodup_append]
  refine ⟨ho, List.nodup_range' 1, ?_⟩
  intro a ha b hb
  have := hlt a ha
  rw [List.mem_range'] at hb
  obtain ⟨i, _, rfl⟩ := hb
  omega

/-! ### index lists -/

/-- `ixs'` is `ixs` with the same names, uuids and fields, and bitmaps that only gained ids from `extra` -/
structure IxLike (extra : List Nat) (ixs' ixs : List Index) : Prop where
  names : ixs'.map (·.name) = ixs.map (·.name)
  uuids : ixs'.map (·.uuid) = ixs.map (·.uuid)
  mem : ∀ ix' ∈ ixs', ∃ ix ∈ ixs, ix'.fields = ix.fields ∧ ∀ i ∈ bmIds ix', i ∈ bmIds ix ∨ i ∈ extra

theorem IxLike.refl (extra : List Nat) (ixs : List Index) : IxLike extra ixs ixs :=
  ⟨rfl, rfl, fun ix h => ⟨ix, h, rfl, fun _ hi => Or.inl hi⟩⟩

theorem IxLike.trans {extra : List Nat} {a b c : List Index} (h1 : IxLike extra a b) (h2 : IxLike extra b c) :
    IxLike extra a c := by
  refine ⟨h1.names.trans h2.names, h1.uuids.trans h2.uuids, ?_⟩
  intro ix' hix'
  obtain ⟨ix, hix, hf, hb⟩ := h1.mem ix' hix'
  obtain ⟨jx, hjx, hf2, hb2⟩ := h2.mem ix hix
  refine ⟨jx, hjx, hf.trans hf2, ?_⟩
  intro i hi
  rcases hb i hi with h | h
  · exact hb2 i h
  · exact Or.inr h

theorem ixLike_map {extra : List Nat} (g : Index → Index) (ixs : List Index)
    (hn : ∀ ix, (g ix).name = ix.name) (hu : ∀ ix, (g ix).uuid = ix.uuid) (hf : ∀ ix, (g ix).fields = ix.fields)
    (hb : ∀ ix, ∀ i ∈ bmIds (g ix), i ∈ bmIds ix ∨ i ∈ extra) : IxLike extra (ixs.map g) ixs := by
  refine ⟨?_, ?_, ?_⟩
  · rw [List.map_map]; exact List.map_congr_left (fun ix _ => hn ix)
  · rw [List.map_map]; exact List.map_congr_left (fun ix _ => hu ix)
  · intro ix' h
    obtain ⟨ix, hix, rfl⟩ := List.mem_map.1 h
    exact ⟨ix, hix, hf ix, hb ix⟩

theorem mem_bmRemoveAll {b xs : List Nat} {i : Nat} (h : i ∈ bmRemoveAll b xs) : i ∈ b :=
  (List.mem_filter.1 h).1

theorem mem_bmInsert {b : List Nat} {x i : Nat} (h : i ∈ bmInsert b x) : i ∈ b ∨ i = x := by
  unfold bmInsert at h
  split at h
  · exact Or.inl h
  · simp only [List.mem_append, List.mem_singleton] at h; exact h

theorem mem_bmInsertAll {xs b : List Nat} {i : Nat} (h : i ∈ bmInsertAll b xs) : i ∈ b ∨ i ∈ xs := by
  induction xs generalizing b with
  | nil => exact Or.inl h
  | cons x xs ih =>
    simp only [bmInsertAll, List.foldl_cons] at h
    rcases ih h with h | h
    · rcases mem_bmInsert h with h | h
      · exact Or.inl h
      · exact Or.inr (by simp [h])
    · exact Or.inr (by simp [h])

theorem pruneUpdated_like (extra : List Nat) (ixs : List Index) (upd : List Nat) (fm : List Int) :
    IxLike extra (pruneUpdated ixs upd fm) ixs := by
  unfold pruneUpdated
  split
  · exact IxLike.refl _ _
  · apply ixLike_map
    · intro ix; split <;> rfl
    · intro ix; split <;> rfl
    · intro ix; split <;> rfl
    · intro ix i hi
      split at hi
      · left
        unfold bmIds at hi ⊢
        cases hb : ix.bitmap with
        | none => simp [hb] at hi
        | some b => simp only [hb, Option.map_some] at hi; exact mem_bmRemoveAll hi
      · exact Or.inl hi

theorem registerPure_like (ixs : List Index) (pure orig : List Nat) (fp : List Int) :
    IxLike pure (registerPure ixs pure orig fp) ixs := by
  unfold registerPure
  split
  · exact IxLike.refl _ _
  · apply ixLike_map
    · intro ix; split; rfl; split; rfl; split <;> rfl
    · intro ix; split; rfl; split; rfl; split <;> rfl
    · intro ix; split; rfl; split; rfl; split <;> rfl
    · intro ix i hi
      split at hi
      · exact Or.inl hi
      · split at hi
        · exact Or.inl hi
        · rename_i b hb
          split at hi
          · simp only [bmIds] at hi
            rcases mem_bmInsertAll hi with h | h
            · left; simp only [bmIds, hb]; exact h
            · exact Or.inr h
          · exact Or.inl hi

/-- the four index clauses of `DraftOK` for a filtered `IxLike` list, fields checked by the filter
    (`retain_relevant_indices` against the new schema) -/
theorem draft_indices_retain {m : Manifest} (hw : WF m) {extra : List Nat} {ixs' : List Index}
    (hl : IxLike extra ixs' m.indices) (schema' : List Int) (frags' : List Frag)
    (hex : ∀ i ∈ extra, i ∈ fragIds frags') :
    (∀ ix ∈ retainRelevant ixs' schema', ∀ x ∈ ix.fields, x ∈ schema') ∧
    (∀ ix ∈ retainRelevant ixs' schema', ∀ i ∈ bmIds ix, LeMax m.maxFrag i ∨ i ∈ fragIds frags') ∧
    ((retainRelevant ixs' schema').map (·.name)).Nodup ∧ ((retainRelevant ixs' schema').map (·.uuid)).Nodup := by
  obtain ⟨_, _, _, _, hix, hnm, huu⟩ := hw
  refine ⟨?_, ?_, ?_, ?_⟩
  · intro ix h x hx
    have := (List.mem_filter.1 h).2
    rw [List.all_eq_true] at this
    simpa using this x hx
  · intro ix h i hi
    obtain ⟨jx, hjx, _, hb⟩ := hl.mem ix (List.mem_filter.1 h).1
    rcases hb i hi with h1 | h1
    · exact Or.inl ((hix jx hjx).2 i h1)
    · exact Or.inr (hex i h1)
  · exact List.Nodup.sublist (List.Sublist.map _ List.filter_sublist) (hl.names ▸ hnm)
  · exact List.Nodup.sublist (List.Sublist.map _ List.filter_sublist) (hl.uuids ▸ huu)

/-- when the schema is unchanged the filter of `retain_relevant_indices` is not needed for the field clause -/
theorem draft_indices_same {m : Manifest} (hw : WF m) {extra : List Nat} {ixs' : List Index}
    (hl : IxLike extra ixs' m.indices) (frags' : List Frag) (hex : ∀ i ∈ extra, i ∈ fragIds frags') :
    (∀ ix ∈ ixs', ∀ x ∈ ix.fields, x ∈ m.schema) ∧
    (∀ ix ∈ ixs', ∀ i ∈ bmIds ix, LeMax m.maxFrag i ∨ i ∈ fragIds frags') ∧
    (ixs'.map (·.name)).Nodup ∧ (ixs'.map (·.uuid)).Nodup := by
  obtain ⟨_, _, _, _, hix, hnm, huu⟩ := hw
  refine ⟨?_, ?_, hl.names ▸ hnm, hl.uuids ▸ huu⟩
  · intro ix h x hx
    obtain ⟨jx, hjx, hf, _⟩ := hl.mem ix h
    rw [hf] at hx
    exact (hix jx hjx).1 x hx
  · intro ix h i hi
    obtain ⟨jx, hjx, _, hb⟩ := hl.mem ix h
    rcases hb i hi with h1 | h1
    · exact Or.inl ((hix jx hjx).2 i h1)
    · exact Or.inr (hex i h1)

/-! ### updated fragments -/

theorem applyUpdatedLast_spec (f : Frag) (upd : List Frag) :
    (applyUpdatedLast f upd).id = f.id ∧ (applyUpdatedLast f upd = f ∨ applyUpdatedLast f upd ∈ upd) := by
  unfold applyUpdatedLast
  induction upd generalizing f with
  | nil => simp
  | cons u us ih =>
    simp only [List.foldl_cons]
    by_cases hu : u.id = f.id
    · simp only [hu, if_true]
      obtain ⟨h1, h2⟩ := ih u
      refine ⟨h1.trans hu, ?_⟩
      rcases h2 with h2 | h2
      · exact Or.inr (by rw [h2]; simp)
      · exact Or.inr (by simp [h2])
    · simp only [hu, if_false]
      obtain ⟨h1, h2⟩ := ih f
      refine ⟨h1, ?_⟩
      rcases h2 with h2 | h2
      · exact Or.inl h2
      · exact Or.inr (by simp [h2])

theorem applyUpdatedFirst_spec (f : Frag) (upd : List Frag) :
    (applyUpdatedFirst f upd).id = f.id ∧ (applyUpdatedFirst f upd = f ∨ applyUpdatedFirst f upd ∈ upd) := by
  unfold applyUpdatedFirst
  cases h : upd.find? (fun u => u.id = f.id) with
  | none => simp
  | some u =>
    have h1 := List.find?_some h
    have h2 := List.mem_of_find?_eq_some h
    simp only [decide_eq_true_eq] at h1
    exact ⟨h1, Or.inr h2⟩

/-- filter by id, then replace entries by updated fragments of the same id: ids stay pairwise different, every
    entry is an old or an updated fragment -/
theorem filter_map_updated {m : Manifest} (hw : WF m) {st : Bool} (hst : st = m.stable) (p : Frag → Bool) (g : Frag → Frag)
    (upd : List Frag) (hg : ∀ f, (g f).id = f.id ∧ (g f = f ∨ g f ∈ upd)) (hu : ∀ f ∈ upd, FragOK st f) :
    (∀ f ∈ (m.frags.filter p).map g, FragOK st f) ∧ (fragIds ((m.frags.filter p).map g)).Sublist (fragIds m.frags) := by
  refine ⟨?_, ?_⟩
  · intro f hf
    obtain ⟨f0, hf0, rfl⟩ := List.mem_map.1 hf
    rcases (hg f0).2 with h | h
    · rw [h, hst]; exact hw.2.1 f0 (List.mem_filter.1 hf0).1
    · exact hu _ h
  · have : fragIds ((m.frags.filter p).map g) = fragIds (m.frags.filter p) := by
      simp only [fragIds, List.map_map]
      exact List.map_congr_left (fun f _ => (hg f).1)
    rw [this]
    exact List.Sublist.map _ List.filter_sublist

end LanceModel.C05
