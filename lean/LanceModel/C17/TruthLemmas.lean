import LanceModel.C17.InvLemmas
/-
C17: the ground truth of a history (first version that showed a row id; last version in which an update touched it) and the
step lemmas that relate it to the version columns.
-/
namespace LanceModel.C17
open LanceModel.Table List

/-! ## ground truth -/

/-- the version shows a row with this id -/
def visibleId (m : Manifest) (rid : Nat) : Bool := (live m).any fun r => r.rid == rid

/-- ground truth of `_row_created_at_version`: the version of the OLDEST manifest of the history that shows the row id -/
def firstSeen (h : Hist) (rid : Nat) : Option Nat := (h.reverse.find? fun m => visibleId m rid).map (·.version)

/-- the operation rewrites the visible row with this id (update predicate matched / upsert key joined) -/
def touchedId (m : Manifest) (op : Op) (rid : Nat) : Bool := (live m).any fun r => r.rid == rid && touches op r

/-- ground truth of `_row_last_updated_at_version`, threaded along the history: an id that was visible before the
    operation and is not touched by it keeps its value; every other id (inserted now, or touched now) gets the version
    the operation publishes -/
def truthStep (h : Hist) (op : Op) (g : Nat → Nat) : Nat → Nat :=
  match h, (step h op).1 with
  | m :: _, m' :: _ =>
    if m'.version = m.version then g
    else fun rid => if visibleId m rid && !touchedId m op rid then g rid else m'.version
  | [], m' :: _ => fun _ => m'.version
  | _, [] => g

def truthFrom (h : Hist) (g : Nat → Nat) : List Op → Nat → Nat
  | [] => g
  | op :: ops => truthFrom (step h op).1 (truthStep h op g) ops

/-- last version in which an update, upsert or in-place column rewrite touched the row (its insertion version if none) -/
def truthUpdated (ops : List Op) : Nat → Nat := truthFrom [] (fun _ => 0) ops

/-! ## the hypothesis of the partial theorems -/

/-- the Update arm's address reading of this row's id lands on its own created-at value -/
def lookupOk (frags : List Frag) (r : PRow) : Bool := lookupCreated frags r.rid == r.created

/-- the row's id IS its address: fragment `rid >> 32` holds this row at offset `rid & 0xFFFFFFFF` -/
def idIsAddr (frags : List Frag) (r : PRow) : Bool :=
  match frags.find? (fun f => f.id == r.rid / 4294967296) with
  | none => false
  | some f => f.rows[r.rid % 4294967296]? == some r

theorem lookupOk_of_idIsAddr (frags : List Frag) (r : PRow) (h : idIsAddr frags r = true) : lookupOk frags r = true := by
  unfold idIsAddr at h
  unfold lookupOk lookupCreated
  split at h
  · cases h
  · rename_i f hf
    rw [hf]
    simp only at h ⊢
    have : f.rows[r.rid % 4294967296]? = some r := by simpa using h
    rw [this]
    simp

/-- the operation stays outside the defective region: every row it moves into a new fragment of the Update arm is read
    back correctly by the address lookup, and a merge_insert inserts no new row -/
def coherentStep (ok : List Frag → PRow → Bool) (m : Manifest) (op : Op) : Bool :=
  (!movesRows m op || ((live m).filter (touches op)).all (ok m.frags)) &&
    (match op with
     | .upsert rows => (upsertNew m.frags rows).isEmpty
     | _ => true)

/-- `coherentStep` on the latest version (vacuous before the table exists) -/
def coherentAt (ok : List Frag → PRow → Bool) (h : Hist) (op : Op) : Bool :=
  match h with
  | m :: _ => coherentStep ok m op
  | [] => true

/-- every operation of the history, at the version it runs on, stays outside the defective region -/
def coherentFrom (ok : List Frag → PRow → Bool) (h : Hist) : List Op → Bool
  | [] => true
  | op :: ops => coherentAt ok h op && coherentFrom ok (step h op).1 ops

/-! ## firstSeen -/

theorem firstSeen_cons (m : Manifest) (h : Hist) (rid : Nat) :
    firstSeen (m :: h) rid =
      match firstSeen h rid with
      | some v => some v
      | none => if visibleId m rid then some m.version else none := by
  unfold firstSeen
  rw [List.reverse_cons, List.find?_append]
  cases hf : List.find? (fun m => visibleId m rid) h.reverse with
  | some x => simp
  | none =>
    simp only [Option.none_or, Option.map_none]
    by_cases hv : visibleId m rid = true
    · simp [List.find?_cons, hv]
    · have : visibleId m rid = false := by simpa using hv
      simp [List.find?_cons, this]

theorem firstSeen_none_of_not_visible (h : Hist) (rid : Nat) (hnv : ∀ m ∈ h, visibleId m rid = false) :
    firstSeen h rid = none := by
  unfold firstSeen
  rw [Option.map_eq_none_iff, List.find?_eq_none]
  intro m hm
  have := hnv m (List.mem_reverse.mp hm)
  simp [this]

theorem visibleId_of_mem {m : Manifest} {r : PRow} (h : r ∈ live m) : visibleId m r.rid = true := by
  unfold visibleId
  exact List.any_eq_true.mpr ⟨r, h, by simp⟩

theorem not_visible_of_bound {m : Manifest} {n rid : Nat} (hb : ∀ r ∈ live m, r.rid < n) (hge : n ≤ rid) :
    visibleId m rid = false := by
  unfold visibleId
  apply Bool.eq_false_iff.mpr
  intro h
  obtain ⟨r, hr, he⟩ := List.any_eq_true.mp h
  have : r.rid = rid := by simpa using he
  have := hb r hr
  omega

/-! ## created-at: one step -/

/-- created-at agrees with the ground truth in every version of the history -/
def CreatedOk (h : Hist) : Prop := ∀ m ∈ h, ∀ r ∈ live m, firstSeen h r.rid = some r.created

theorem createdOk_push {m' m : Manifest} {h : Hist} (hc : CreatedOk (m :: h))
    (hnew : ∀ r' ∈ live m', (∃ r ∈ live m, r.rid = r'.rid ∧ r.created = r'.created) ∨
      ((∀ m1 ∈ m :: h, visibleId m1 r'.rid = false) ∧ r'.created = m'.version)) :
    CreatedOk (m' :: m :: h) := by
  intro m1 hm1 r hr
  rw [firstSeen_cons]
  rcases List.mem_cons.mp hm1 with rfl | hm1
  · rcases hnew r hr with ⟨r0, hr0, hid, hcr⟩ | ⟨hnv, hcr⟩
    · have := hc m (List.mem_cons_self ..) r0 hr0
      rw [hid] at this
      rw [this, hcr]
    · rw [firstSeen_none_of_not_visible _ _ hnv]
      simp [visibleId_of_mem hr, hcr]
  · have := hc m1 hm1 r hr
    rw [this]

theorem created_step (ok : List Frag → PRow → Bool) (hok : ∀ frags r, ok frags r = true → lookupOk frags r = true)
    (h : Hist) (op : Op) (hi : Inv h) (hc : CreatedOk h)
    (hco : coherentAt ok h op = true) : CreatedOk (step h op).1 := by
  cases h with
  | nil =>
    rcases step_nil op with h0 | ⟨f, k, rows, _, _, m', hm', hv, _, _, hperm⟩
    · rw [h0]; exact hc
    · rw [hm']
      intro m1 hm1 r hr
      simp only [List.mem_singleton] at hm1
      subst hm1
      rw [firstSeen_cons]
      have : firstSeen [] r.rid = none := rfl
      rw [this]
      have hcr := (mem_numberRows (hperm.mem_iff.mp hr)).2.2.1
      simp [visibleId_of_mem hr, hv, hcr]
  | cons m h =>
    obtain ⟨hfo, hb, _⟩ := hi
    rcases step_cons m h op hfo with h0 | ⟨m', hm', hv, _, _, hperm⟩
    · rw [h0]; exact hc
    · rw [hm']
      -- the versions published before the last one show exactly the rows of `m`
      have hmidc : CreatedOk (midOf m op ++ m :: h) := by
        cases op <;> try exact hc
        rename_i t mat
        simp only [midOf, List.singleton_append]
        apply createdOk_push hc
        intro r' hr'
        exact .inl ⟨r', hr', rfl, rfl⟩
      have hvis : ∀ rid, (∀ m1 ∈ m :: h, visibleId m1 rid = false) →
          ∀ m1 ∈ midOf m op ++ m :: h, visibleId m1 rid = false := by
        intro rid hnv m1 hm1
        rcases List.mem_append.mp hm1 with hmid | hm1
        · unfold visibleId
          rw [(live_midOf m op m1 hmid).1]
          exact hnv m (List.mem_cons_self ..)
        · exact hnv m1 hm1
      have hpush : ∀ (mid : List Manifest) (x : Manifest), CreatedOk (mid ++ m :: h) →
          (∀ y ∈ mid, live y = live m) →
          (∀ r' ∈ live x, (∃ r ∈ live m, r.rid = r'.rid ∧ r.created = r'.created) ∨
            ((∀ m1 ∈ mid ++ m :: h, visibleId m1 r'.rid = false) ∧ r'.created = x.version)) →
          CreatedOk (x :: (mid ++ m :: h)) := by
        intro mid x hcm hl hnew
        cases mid with
        | nil => exact createdOk_push hcm hnew
        | cons y ys =>
          apply createdOk_push hcm
          intro r' hr'
          rcases hnew r' hr' with ⟨r, hr, h1, h2⟩ | h2
          · exact .inl ⟨r, by rw [hl y (List.mem_cons_self ..)]; exact hr, h1, h2⟩
          · exact .inr h2
      apply hpush _ _ hmidc (fun y hy => (live_midOf m op y hy).1)
      intro r' hr'
      unfold coherentAt coherentStep at hco
      simp only [Bool.and_eq_true, Bool.or_eq_true, Bool.not_eq_true'] at hco
      obtain ⟨hmv, hins⟩ := hco
      have hfresh : ∀ rid, m.nextRowId ≤ rid → ∀ m1 ∈ midOf m op ++ m :: h, visibleId m1 rid = false :=
        fun rid hge => hvis rid (fun m1 hm1 => not_visible_of_bound (hb m1 hm1) hge)
      cases origin_of_mem m op r' (hperm.mem_iff.mp hr') with
      | kept a _ => exact .inl ⟨r', a, rfl, rfl⟩
      | fresh a _ c _ => exact .inr ⟨hfresh _ a, by rw [c, hv]⟩
      | moved r hmoves a t c _ e =>
        left
        refine ⟨r, a, c.symm, ?_⟩
        rcases hmv with hf | hall
        · rw [hmoves] at hf; cases hf
        · have hmem : r ∈ (live m).filter (touches op) := List.mem_filter.mpr ⟨a, t⟩
          have := hok _ _ (List.all_eq_true.mp hall r hmem)
          unfold lookupOk at this
          rw [e]
          exact (by simpa using this : lookupCreated m.frags r.rid = r.created).symm
      | inserted rows hop a b _ _ =>
        exfalso
        subst hop
        have : (upsertNew m.frags rows) = [] := by simpa using hins
        simp only [nextAfter, this, List.length_nil] at b
        omega
      | patched r a _ c d _ => exact .inl ⟨r, a, c.symm, d.symm⟩

/-! ## last-updated-at: one step -/

/-- last-updated-at of the latest version agrees with the threaded ground truth -/
def UpdatedOk (h : Hist) (g : Nat → Nat) : Prop :=
  match h with
  | m :: _ => ∀ r ∈ live m, r.updated = g r.rid
  | [] => True

theorem touchedId_false_of_kept {m : Manifest} {op : Op} {r' : PRow} (hn : (rids (live m)).Nodup) (a : r' ∈ live m)
    (t : touches op r' = false) : touchedId m op r'.rid = false := by
  unfold touchedId
  apply Bool.eq_false_iff.mpr
  intro h
  obtain ⟨r, hr, he⟩ := List.any_eq_true.mp h
  simp only [Bool.and_eq_true, beq_iff_eq] at he
  have : r = r' := eq_of_rid_eq hn hr a he.1
  rw [this, t] at he
  exact absurd he.2 (by simp)

theorem touchedId_true_of_mem {m : Manifest} {op : Op} {r : PRow} (a : r ∈ live m) (t : touches op r = true) :
    touchedId m op r.rid = true := by
  unfold touchedId
  exact List.any_eq_true.mpr ⟨r, a, by simp [t]⟩

theorem updated_step (h : Hist) (op : Op) (g : Nat → Nat) (hi : Inv h) (hu : UpdatedOk h g) :
    UpdatedOk (step h op).1 (truthStep h op g) := by
  cases h with
  | nil =>
    rcases step_nil op with h0 | ⟨f, k, rows, _, _, m', hm', hv, _, _, hperm⟩
    · rw [h0]; trivial
    · unfold truthStep
      rw [hm']
      intro r hr
      have := (mem_numberRows (hperm.mem_iff.mp hr)).2.2.2.1
      simp [this, hv]
  | cons m h =>
    obtain ⟨hfo, hb, hn⟩ := hi
    have hbm := hb m (List.mem_cons_self ..)
    have hnm := hn m (List.mem_cons_self ..)
    rcases step_cons m h op hfo with h0 | ⟨m', hm', hv, _, _, hperm⟩
    · unfold truthStep
      rw [h0]
      simpa using hu
    · unfold truthStep
      rw [hm']
      have hne : ¬ m'.version = m.version := by have := pubVersion_gt m op; omega
      simp only [hne, if_false]
      intro r' hr'
      simp only
      cases origin_of_mem m op r' (hperm.mem_iff.mp hr') with
      | kept a t =>
        rw [visibleId_of_mem a, touchedId_false_of_kept hnm a t]
        simpa using hu r' a
      | fresh a _ _ d =>
        rw [not_visible_of_bound hbm a]
        simp [d, hv]
      | moved r _ a t c d _ =>
        rw [c, touchedId_true_of_mem a t]
        simp [d, hv]
      | inserted _ _ a _ d _ =>
        rw [not_visible_of_bound hbm a]
        simp [d, hv]
      | patched r a t c _ e =>
        rw [c, touchedId_true_of_mem a t]
        simp [e, hv]

end LanceModel.C17
