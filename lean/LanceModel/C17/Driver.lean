import LanceModel.Util
import LanceModel.Table.Basic
import LanceModel.C17.Model
/-
C17 driver.  Op lines (grammar: top of harness/src/bin/c17.rs)

  create f=<nat> k=<K> <rows> | append f=<nat> <rows> | overwrite f=<nat> <rows> | delete <pred> | update <pred> <int>
  upsert <rows> | compact t=<nat> m=<0|1> | deltas            pred ::= lt <int> | ge <int> | in <int,…> | all

→ `ok v=<version> nrid=<next_row_id> mfid=<max_fragment_id|none> meta=<id[rid.created.updated[x],…]…> scan=<cells…,_rowid,
_row_created_at_version,_row_last_updated_at_version;…>`, `ok <b>-<e>:i=<ids>:u=<ids> …` for `deltas`, `err <kind>`.
The state is the model history of the case.
-/
namespace LanceModel.C17.Driver
open LanceModel.Util LanceModel.Table LanceModel.C17

/-- the model history and the handles remembered by `open` (name ↦ version the handle was opened at) -/
structure St where
  hist : Hist
  handles : List (String × Nat)

def St.init : St := { hist := [], handles := [] }

/-- `parse_nat` of the harness: 1–9 ASCII digits -/
def parseNat (s : String) : Option Nat :=
  if s.length > 9 then none else parseNatChars s.toList

def tokVal (key tok : String) : Option String :=
  if tok.startsWith (key ++ "=") then some (String.ofList (tok.toList.drop (key.length + 1))) else none

/-- rows of one common width (that of the first row) -/
def rowsSameWidth (s : String) : Option (List Row) :=
  match parseRows s with
  | none => none
  | some rows =>
    match rows with
    | [] => some []
    | r :: _ => if rows.all (fun x => x.length == r.length) then some rows else none

def parseInt (s : String) : Option Int :=
  match parseCell s with
  | some (some v) => some v
  | _ => none

def parsePred (t : List String) : Option Pred :=
  match t with
  | ["all"] => some .all
  | ["lt", x] => (parseInt x).map .lt
  | ["ge", x] => (parseInt x).map .ge
  | ["in", xs] => ((xs.splitOn ",").mapM parseInt).map .isIn
  | _ => none

inductive Cmd where
  | op (o : Op)
  | deltas
  | openH (name : String)
  | appendVia (name : String) (f : Nat) (rows : List Row)

def parseCmd (line : String) : Option Cmd :=
  match splitTokens line with
  | ["create", f, k, rows] => do
    let f ← (tokVal "f" f) >>= parseNat
    let k ← (tokVal "k" k) >>= parseNat
    let rows ← rowsSameWidth rows
    if (k == 2 || k == 3) && rows.all (fun r => r.length == k) then some (.op (.create f k rows)) else none
  | ["append", f, rows] => do
    let f ← (tokVal "f" f) >>= parseNat
    let rows ← rowsSameWidth rows
    some (.op (.append f rows))
  | ["overwrite", f, rows] => do
    let f ← (tokVal "f" f) >>= parseNat
    let rows ← rowsSameWidth rows
    some (.op (.overwrite f rows))
  | "delete" :: rest => (parsePred rest).map fun p => .op (.delete p)
  | "update" :: rest =>
    match rest.reverse with
    | y :: pr =>
      if pr.isEmpty then none
      else
        match parsePred pr.reverse, parseInt y with
        | some p, some v => some (.op (.update p v))
        | _, _ => none
    | [] => none
  | ["upsert", rows] => do
    let rows ← rowsSameWidth rows
    if rows.isEmpty then none else some (.op (.upsert rows))
  | ["compact", t, m] => do
    let t ← (tokVal "t" t) >>= parseNat
    let mv ← tokVal "m" m
    let mat ← (if mv = "0" then some false else if mv = "1" then some true else none)
    some (.op (.compact t mat))
  | ["deltas"] => some .deltas
  | ["open", n] => if n = "a" || n = "b" then some (.openH n) else none
  | [tag, "append", f, rows] =>
    if tag = "@a" || tag = "@b" then do
      let f ← (tokVal "f" f) >>= parseNat
      let rows ← rowsSameWidth rows
      some (.appendVia (String.ofList (tag.toList.drop 1)) f rows)
    else none
  | _ => none

def showPRow (r : PRow) : String :=
  toString r.rid ++ "." ++ toString r.created ++ "." ++ toString r.updated ++ (if r.deleted then "x" else "")

def showMeta (frags : List Frag) : String :=
  if frags.isEmpty then "-"
  else String.join (frags.map fun f => toString f.id ++ "[" ++ ",".intercalate (f.rows.map showPRow) ++ "]")

def scanRow (r : PRow) : Row :=
  r.cells ++ [some (Int.ofNat r.rid), some (Int.ofNat r.created), some (Int.ofNat r.updated)]

def showManifest (m : Manifest) : String :=
  "ok v=" ++ toString m.version ++ " nrid=" ++ toString m.nextRowId
    ++ " mfid=" ++ (match m.maxFragId with | none => "none" | some x => toString x)
    ++ " meta=" ++ showMeta m.frags ++ " scan=" ++ showRows ((live m).map scanRow)

def idsOf (rows : List PRow) : String := showNatList (sortNat (rows.map (·.rid)))

/-- all pairs `b < e <= latest`, e ascending, b ascending -/
def showDeltas (h : Hist) : String :=
  let latest := match h with
    | m :: _ => m.version
    | [] => 0
  let parts := (List.range latest).flatMap fun e0 =>
    match h.find? (fun m => m.version == e0 + 1) with
    | none => []
    | some m =>
      (List.range (e0 + 1)).map fun b =>
        toString b ++ "-" ++ toString (e0 + 1) ++ ":i=" ++ idsOf (insertedRows m b (e0 + 1))
          ++ ":u=" ++ idsOf (updatedRows m b (e0 + 1))
  if parts.isEmpty then "ok -" else "ok " ++ " ".intercalate parts

/-- an upsert the model would commit that inserts two or more rows: the interpreter rejects it on both sides (the order
    in which the real join emits several unmatched source rows, and with it which fresh row id each gets, is hash-dependent) -/
def multiInsert (s : Hist) (op : Op) : Bool :=
  match s, op with
  | m :: _, .upsert rows =>
    (match (LanceModel.C17.step s op).2 with
     | .ok => true
     | .err _ => false) && decide (1 < (upsertNew m.frags rows).length)
  | _, _ => false

def runOp (s : St) (op : Op) : St × String :=
  if multiInsert s.hist op then (s, "err multi_insert") else
  match LanceModel.C17.step s.hist op with
  | (h', .ok) =>
    match h' with
    | m :: _ => ({ s with hist := h' }, showManifest m)
    | [] => ({ s with hist := h' }, "err model")
  | (h', .err k) => ({ s with hist := h' }, "err " ++ k)

def step (s : St) (line : String) : St × String :=
  match parseCmd line with
  | none => (s, "err parse")
  | some .deltas => if s.hist.isEmpty then (s, "err no_table") else (s, showDeltas s.hist)
  | some (.openH n) =>
    match s.hist with
    | [] => (s, "err no_table")
    | m :: _ => ({ s with handles := (n, m.version) :: s.handles.filter (fun e => e.1 != n) }, "ok open v=" ++ toString m.version)
  | some (.appendVia n f rows) =>
    if s.hist.isEmpty then (s, "err no_table")
    else
      match s.handles.lookup n with
      | none => (s, "err no_handle")
      | some rv => runOp s (.appendVia rv f rows)
  | some (.op op) => runOp s op

end LanceModel.C17.Driver
