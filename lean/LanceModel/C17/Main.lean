import LanceModel.C17.Driver
def main : IO Unit := LanceModel.Util.runDriver LanceModel.C17.Driver.step LanceModel.C17.Driver.St.init
