import LanceModel.C17.TruthLemmas
/-
C17 — change data feed and version columns are correct.

  "With stable row ids, each visible row's created-at version is the version in which its row id was first inserted, and
   its last-updated version is the last version in which an update, upsert or in-place column rewrite changed the row
   (its creation version if none did).  The inserted-rows and updated-rows deltas between two versions contain exactly
   the rows the model says were inserted, or updated but not inserted, in that range."

Ground truth (TruthLemmas.lean): `firstSeen (run ops) rid` = the version of the oldest manifest of the history that shows
the id; `truthUpdated ops rid` = threaded along the history: the version published by the last operation that inserted the
id or touched its row (update predicate matched / upsert key joined).

The code does NOT meet the created-at part: the Update arm of `Transaction::build_manifest` reads the stable row id of
every row of its new fragments as a row ADDRESS (`lookupCreated`).  `created_full` / `delta_full` stay visible, are refuted
by the 3-step witness, and are proved under the hypothesis that excludes exactly the rows for which that reading is wrong.
-/
namespace LanceModel.C17
open LanceModel.Table List

/-! ## full statements -/

/-- every visible row of every version reports the version that first showed its row id -/
def created_full : Prop :=
  ∀ (ops : List Op), ∀ m ∈ run ops, ∀ r ∈ live m, firstSeen (run ops) r.rid = some r.created

/-- every visible row of the latest version of every history reports the last version that touched it
    (every version is the latest version of a prefix of its history: `versions_immutable`) -/
def updated_full : Prop :=
  ∀ (ops : List Op) (m : Manifest) (h : Hist), run ops = m :: h → ∀ r ∈ live m, r.updated = truthUpdated ops r.rid

/-- the rows the history says were inserted in `(b, e]` -/
def truthInserted (ops : List Op) (m : Manifest) (b e : Nat) : List PRow :=
  (live m).filter fun r =>
    match firstSeen (run ops) r.rid with
    | some c => decide (b < c) && decide (c ≤ e)
    | none => false

/-- the rows the history says were updated, but not inserted, in `(b, e]` -/
def truthUpdatedRows (ops : List Op) (m : Manifest) (b e : Nat) : List PRow :=
  (live m).filter fun r =>
    match firstSeen (run ops) r.rid with
    | some c => decide (c ≤ b) && decide (b < truthUpdated ops r.rid) && decide (truthUpdated ops r.rid ≤ e)
    | none => false

/-- both delta streams of the latest version are exactly what the history says, for all version pairs -/
def delta_full : Prop :=
  ∀ (ops : List Op) (m : Manifest) (h : Hist), run ops = m :: h → ∀ b e, b < e →
    insertedRows m b e = truthInserted ops m b e ∧ updatedRows m b e = truthUpdatedRows ops m b e

/-- the whole property -/
def C17_full : Prop := created_full ∧ updated_full ∧ delta_full

/-! ## what holds for every history -/

/-- published versions never change: a longer history only adds manifests in front -/
theorem versions_immutable (ops more : List Op) : ∃ pre, run (ops ++ more) = pre ++ run ops := by
  have stepSuffix : ∀ (h : Hist) (op : Op), ∃ pre, (step h op).1 = pre ++ h := by
    intro h op
    cases h with
    | nil => exact ⟨(step [] op).1, by simp⟩
    | cons m h =>
      cases op <;> simp only [step] <;> (repeat' split) <;> first | exact ⟨[], rfl⟩ | exact ⟨[_], rfl⟩ | exact ⟨[_, _], rfl⟩
  have gen : ∀ (more : List Op) (h : Hist), ∃ pre, runFrom h more = pre ++ h := by
    intro more
    induction more with
    | nil => intro h; exact ⟨[], rfl⟩
    | cons op more ih =>
      intro h
      obtain ⟨pre, hp⟩ := ih (step h op).1
      obtain ⟨pre2, hp2⟩ := stepSuffix h op
      simp only [runFrom]
      rw [hp, hp2]
      exact ⟨pre ++ pre2, by simp⟩
  have hr : run (ops ++ more) = runFrom (run ops) more := by
    have : ∀ (a b : List Op) (h : Hist), runFrom h (a ++ b) = runFrom (runFrom h a) b := by
      intro a
      induction a with
      | nil => intro b h; rfl
      | cons x xs ih => intro b h; simp only [List.cons_append, runFrom]; exact ih b _
    exact this ops more []
  rw [hr]
  exact gen more (run ops)

/-- row ids: in every version of every history no id appears twice and all ids are below the latest `next_row_id`
    (ids handed out later are new) -/
theorem rowids_unique_fresh (ops : List Op) :
    (∀ m ∈ run ops, (rids (live m)).Nodup) ∧
    (∀ m0 h, run ops = m0 :: h → ∀ m ∈ run ops, ∀ r ∈ live m, r.rid < m0.nextRowId) := by
  have hi := inv_run ops
  refine ⟨?_, ?_⟩
  · intro m hm
    cases hr : run ops with
    | nil => rw [hr] at hm; cases hm
    | cons m0 h => rw [hr] at hi hm; exact hi.2.2 m hm
  · intro m0 h hr m hm r hmr
    rw [hr] at hi hm
    exact hi.2.1 m hm r hmr

/-- a compaction (`compact_files`: plan, rewrite, rechunk row ids and both version sequences, commit) shows the same rows
    with the same ids and the same two version values -/
theorem compaction_preserves (m : Manifest) (h : Hist) (t : Nat) (mat : Bool) (hok : FragOk m) :
    ∀ m' rest, (step (m :: h) (.compact t mat)).1 = m' :: rest → (live m').Perm (live m) := by
  intro m' rest hs
  rcases step_cons m h (.compact t mat) hok with h0 | ⟨m2, hm2, _, _, _, hperm⟩
  · rw [h0] at hs
    cases hs
    exact List.Perm.refl _
  · rw [hm2] at hs
    cases hs
    simpa [liveAfter] using hperm

/-- LAST-UPDATED-AT IS CORRECT, for every history -/
theorem updated_correct : updated_full := by
  have gen : ∀ (ops : List Op) (h : Hist) (g : Nat → Nat), Inv h → UpdatedOk h g →
      UpdatedOk (runFrom h ops) (truthFrom h g ops) := by
    intro ops
    induction ops with
    | nil => intro h g _ hu; exact hu
    | cons op ops ih =>
      intro h g hi hu
      exact ih _ _ (inv_step h op hi) (updated_step h op g hi hu)
  intro ops m h hr r hmr
  have := gen ops [] (fun _ => 0) trivial trivial
  unfold run at hr
  rw [hr] at this
  exact this r hmr

/-! ## created-at -/

/-- created-at under the step-wise hypothesis `ok` (anything that implies the address lookup is right) -/
theorem created_of_coherent (ok : List Frag → PRow → Bool)
    (hok : ∀ frags r, ok frags r = true → lookupOk frags r = true) (ops : List Op)
    (hco : coherentFrom ok [] ops = true) : ∀ m ∈ run ops, ∀ r ∈ live m, firstSeen (run ops) r.rid = some r.created := by
  have gen : ∀ (ops : List Op) (h : Hist), Inv h → CreatedOk h → coherentFrom ok h ops = true →
      CreatedOk (runFrom h ops) := by
    intro ops
    induction ops with
    | nil => intro h _ hc _; exact hc
    | cons op ops ih =>
      intro h hi hc hco
      simp only [coherentFrom, Bool.and_eq_true] at hco
      exact ih _ (inv_step h op hi) (created_step ok hok h op hi hc hco.1) hco.2
  exact gen ops [] trivial (by intro m hm; cases hm) hco

/-- CREATED-AT, partial: for every history in which (a) every row that an update or full-schema upsert moves into a new
    fragment is one whose id, read as an address, lands on its own created-at entry and (b) no merge_insert inserts a new
    row — i.e. everywhere outside the defective region — every visible row of every version reports the version that
    first showed its id -/
theorem created_partial (ops : List Op) (hco : coherentFrom lookupOk [] ops = true) :
    ∀ m ∈ run ops, ∀ r ∈ live m, firstSeen (run ops) r.rid = some r.created :=
  created_of_coherent lookupOk (fun _ _ h => h) ops hco

/-- the same with the structural hypothesis "row ids coincide with row addresses" for the moved rows (e.g. tables
    whose updated rows still sit where they were first written in fragment `rid >> 32`) -/
theorem created_partial_addr (ops : List Op) (hco : coherentFrom idIsAddr [] ops = true) :
    ∀ m ∈ run ops, ∀ r ∈ live m, firstSeen (run ops) r.rid = some r.created :=
  created_of_coherent idIsAddr lookupOk_of_idIsAddr ops hco

/-- operations that never go through the Update arm's new fragments -/
def noUpdateArm (op : Op) : Bool :=
  match op with
  | .update _ _ => false
  | .upsert _ => false
  | _ => true

/-- CREATED-AT is correct for every history of create / append / overwrite / delete / compaction (any number of fragments,
    any compaction plan): only the Update arm is defective -/
theorem created_correct_without_update_arm (ops : List Op) (hno : ops.all noUpdateArm = true) :
    ∀ m ∈ run ops, ∀ r ∈ live m, firstSeen (run ops) r.rid = some r.created := by
  apply created_partial
  have gen : ∀ (ops : List Op) (h : Hist), ops.all noUpdateArm = true → coherentFrom lookupOk h ops = true := by
    intro ops
    induction ops with
    | nil => intro _ _; rfl
    | cons op ops ih =>
      intro h hall
      simp only [List.all_cons, Bool.and_eq_true] at hall
      simp only [coherentFrom, Bool.and_eq_true]
      refine ⟨?_, ih _ hall.2⟩
      cases h with
      | nil => rfl
      | cons m h =>
        cases op <;> simp [noUpdateArm] at hall <;> simp [coherentAt, coherentStep, movesRows]
  exact gen ops [] hno

/-- the 3-step witness of the design spike: create 3 rows, append 3 rows, update the row with key 4 -/
def witness : List Op :=
  [.create 10 2 [[some 1, some 10], [some 2, some 20], [some 3, some 30]],
   .append 10 [[some 4, some 40], [some 5, some 50], [some 6, some 60]],
   .update (.isIn [4]) 7]

/-- the updated row (id 3, first shown by version 2) -/
def witnessRow : PRow := { cells := [some 4, some 7], rid := 3, created := 1, updated := 3, deleted := false }

theorem witness_run :
    (run witness).head?.map live =
      some [⟨[some 1, some 10], 0, 1, 1, false⟩, ⟨[some 2, some 20], 1, 1, 1, false⟩, ⟨[some 3, some 30], 2, 1, 1, false⟩,
            ⟨[some 5, some 50], 4, 2, 2, false⟩, ⟨[some 6, some 60], 5, 2, 2, false⟩, witnessRow] := by
  decide

/-- CREATED-AT, counterexample: the updated row reports created-at 1, its id was first shown by version 2 -/
theorem created_counterexample : ¬ created_full := by
  intro h
  have hm : (run witness).head? = some
      { version := 3, k := 2, nextRowId := 6, maxFragId := some 2, epoch := 1
        frags := [⟨0, [⟨[some 1, some 10], 0, 1, 1, false⟩, ⟨[some 2, some 20], 1, 1, 1, false⟩,
                      ⟨[some 3, some 30], 2, 1, 1, false⟩]⟩,
                  ⟨1, [⟨[some 4, some 40], 3, 2, 2, true⟩, ⟨[some 5, some 50], 4, 2, 2, false⟩,
                      ⟨[some 6, some 60], 5, 2, 2, false⟩]⟩,
                  ⟨2, [witnessRow]⟩] } := by decide
  have := h witness _ (List.mem_of_mem_head? hm) witnessRow (by decide)
  revert this
  decide

/-! ## deltas -/

/-- DELTAS: wherever created-at is right for the latest version, both delta streams are exactly the history's -/
theorem delta_of_created (ops : List Op) (m : Manifest) (h : Hist) (hr : run ops = m :: h)
    (hc : ∀ r ∈ live m, firstSeen (run ops) r.rid = some r.created) (b e : Nat) :
    insertedRows m b e = truthInserted ops m b e ∧ updatedRows m b e = truthUpdatedRows ops m b e := by
  have hu := updated_correct ops m h hr
  refine ⟨?_, ?_⟩
  · unfold insertedRows truthInserted
    apply List.filter_congr
    intro r hmr
    rw [hc r hmr]
  · unfold updatedRows truthUpdatedRows
    apply List.filter_congr
    intro r hmr
    rw [hc r hmr, ← hu r hmr]

/-- DELTAS, partial: for every history outside the defective region, for all version pairs -/
theorem delta_partial (ops : List Op) (hco : coherentFrom lookupOk [] ops = true) (m : Manifest) (h : Hist)
    (hr : run ops = m :: h) (b e : Nat) (_hbe : b < e) :
    insertedRows m b e = truthInserted ops m b e ∧ updatedRows m b e = truthUpdatedRows ops m b e :=
  delta_of_created ops m h hr (fun r hmr => created_partial ops hco m (by rw [hr]; exact List.mem_cons_self ..) r hmr) b e

/-- DELTAS, counterexample: on the witness, delta(1, 3) misses the row inserted by version 2 -/
theorem delta_counterexample : ¬ delta_full := by
  intro h
  have hr : ∃ m rest, run witness = m :: rest ∧ (insertedRows m 1 3).map (·.rid) = [4, 5] ∧
      (truthInserted witness m 1 3).map (·.rid) = [4, 5, 3] := by
    refine ⟨_, _, rfl, ?_, ?_⟩ <;> decide
  obtain ⟨m, rest, hrun, hi, ht⟩ := hr
  have := (h witness m rest hrun 1 3 (by decide)).1
  rw [this, ht] at hi
  revert hi
  decide

/-- the property as a whole: false of the code -/
theorem C17_counterexample : ¬ C17_full := fun h => created_counterexample h.1

/-- the property as a whole, outside the defective region -/
theorem C17_partial (ops : List Op) (hco : coherentFrom lookupOk [] ops = true) :
    (∀ m ∈ run ops, ∀ r ∈ live m, firstSeen (run ops) r.rid = some r.created) ∧
    (∀ m h, run ops = m :: h → ∀ r ∈ live m, r.updated = truthUpdated ops r.rid) ∧
    (∀ m h, run ops = m :: h → ∀ b e, b < e →
      insertedRows m b e = truthInserted ops m b e ∧ updatedRows m b e = truthUpdatedRows ops m b e) :=
  ⟨created_partial ops hco, updated_correct ops, fun m h hr b e hbe => delta_partial ops hco m h hr b e hbe⟩

/-! ## appends through a stale handle (rebased commits) -/

/-- an append rebased from any earlier read version publishes exactly what a fresh append publishes: its rows are stamped
    with the version actually published (latest + 1), never with `read_version + 1` -/
theorem appendVia_eq_append (m : Manifest) (h : Hist) (rv f : Nat) (rows : List Row)
    (hok : (step (m :: h) (.appendVia rv f rows)).2 = .ok) :
    (step (m :: h) (.appendVia rv f rows)).1 = (step (m :: h) (.append f rows)).1 := by
  simp only [step] at hok ⊢
  (repeat' split at hok) <;> first | cases hok | skip
  rename_i h1 h2 h3 h4
  have h1' : ¬(rv = 0 ∨ m.version < rv) := by simpa using h1
  simp [h1', h2, h3, h4]

/-- two writers at version 1: the second append is committed as version 3 and its rows say so -/
def staleWitness : List Op :=
  [.create 10 2 [[some 1, some 10]], .append 10 [[some 2, some 20]], .appendVia 1 10 [[some 3, some 30]]]

example : (run staleWitness).head?.map (fun m => (m.version, (live m).map fun r => (r.rid, r.created, r.updated)))
    = some (3, [(0, 1, 1), (1, 2, 2), (2, 3, 3)]) := by decide
example : staleWitness.all noUpdateArm = true := by decide
example : (run staleWitness).head?.map (fun m => (insertedRows m 2 3).map (·.rid)) = some [2] := by decide
/-- an Overwrite committed after the read version makes the rebase fail, nothing is published -/
example : (step (run [.create 10 2 [[some 1, some 10]], .overwrite 10 [[some 5, some 50]]]) (.appendVia 1 10 [[some 3, some 30]])).2
    = .err "conflict_incompatible" := by decide

/-! ## non-vacuity -/

/-- a multi-fragment history with appends, updates of rows that still sit at their address, a delete, an upsert without
    inserts, a partial-schema upsert and a compaction satisfies the hypothesis of the partial theorems -/
def coherentExample : List Op :=
  [.create 2 3 [[some 1, some 10, some 100], [some 2, some 20, some 200], [some 3, some 30, some 300]],
   .update (.isIn [2]) 7,
   .append 2 [[some 4, some 40, some 400]],
   .upsert [[some 1, some 11]],
   .upsert [[some 3, some 33, some 333]],
   .delete (.lt 2),
   .compact 4 true]

example : coherentFrom lookupOk [] coherentExample = true := by decide
example : coherentFrom idIsAddr [] (coherentExample.take 3) = true := by decide
example : (run coherentExample).length = 8 := by decide
/-- the witness is outside the hypothesis (as it must be) -/
example : coherentFrom lookupOk [] witness = false := by decide
/-- updated_correct is about something: the witness history's updated row carries version 3, the others their own -/
example : (run witness).head?.map (fun m => (live m).map (·.updated)) = some [1, 1, 1, 2, 2, 3] := by decide
example : [truthUpdated witness 0, truthUpdated witness 3, truthUpdated witness 4] = [1, 3, 2] := by decide
/-- deltas on a coherent history are non-empty -/
example : (run coherentExample).head?.map (fun m => ((insertedRows m 1 8).map (·.rid), (updatedRows m 1 8).map (·.rid)))
    = some ([3], [1, 2]) := by decide

end LanceModel.C17
