import LanceModel.C10.Model
/-!
C10 — the protocol invariant and its preservation by every transition (one lemma per transition).
-/
namespace LanceModel.C10

/-- the staging object a task is finalising (it read `staging w` from the slot, or registered it) -/
def finOn : Pc → Option Nat
  | .headS w => some w
  | .copy w _ => some w
  | .headF w _ => some w
  | .flip w => some w
  | .del w => some w
  | _ => none

def isWriterPc : Pc → Bool
  | .wPut => true
  | .wExt => true
  | .wChk => true
  | .wCleanup => true
  | _ => false

def isReaderPc : Pc → Bool
  | .rGet => true
  | .lGet => true
  | .headS _ => true
  | .fb1 => true
  | .fb2 => true
  | .fbV1 => true
  | .backfill => true
  | .lList _ => true
  | _ => false

def Fault.isStale : Fault → Bool
  | .staleNone => true
  | .staleReg => true
  | _ => false

/-- The invariant.  `wr i` = task `i` is a writer. -/
structure Inv (wr : Nat → Bool) (s : State) : Prop where
  /-- a registered staging object exists -/
  regExists : ∀ w, s.ext = some (.staging w) → s.reg = some w ∧ s.staging w = true
  /-- the final object is a copy of the registered staging object -/
  finalReg : ∀ c, s.final = some c → s.reg = some c
  /-- the external entry points to `final` only if it exists -/
  flipped : s.ext = some .final → s.final.isSome = true
  /-- the slot only moves `none → staging reg → final` -/
  regExt : ∀ w, s.reg = some w → s.ext = some (.staging w) ∨ s.ext = some .final
  regNone : s.reg = none → s.ext = none
  /-- finalisers only ever work on the registered object -/
  finReg : ∀ i w, finOn (s.pcs i) = some w → s.reg = some w
  flipHas : ∀ i w, (s.pcs i = .flip w ∨ s.pcs i = .headF w true) → s.final = some w
  delHas : ∀ i w, s.pcs i = .del w → s.ext = some .final ∧ s.final = some w
  /-- a writer that has not yet registered still owns its staging object and is not registered -/
  ownStaging : ∀ i, s.pcs i = .wExt → s.staging i = true
  notReg : ∀ i, (s.pcs i = .wPut ∨ s.pcs i = .wExt) → s.reg ≠ some i
  /-- a writer only deletes its staging object when the slot does not point at it -/
  cleanupSafe : ∀ i, s.pcs i = .wCleanup → s.ext ≠ some (.staging i)
  /-- every location handed out is the final path with the registered content -/
  okHas : ∀ i c, s.pcs i = .done (.ok c) → s.final = some c
  noDangling : ∀ i, s.pcs i ≠ .done .dangling
  fbHas : ∀ i, s.pcs i = .backfill → s.final.isSome = true
  /-- roles -/
  readerNotW : ∀ i, wr i = false → isWriterPc (s.pcs i) = false
  writerNotR : ∀ i, wr i = true → isReaderPc (s.pcs i) = false
  writerOwn : ∀ i w, wr i = true → finOn (s.pcs i) = some w → w = i
  writerOk : ∀ i c, wr i = true → s.pcs i = .done (.ok c) → c = i

macro "inv_field" : tactic =>
  `(tactic| (intros; simp only [upd_apply, finOn, isWriterPc, isReaderPc] at *; grind [finOn, isWriterPc, isReaderPc]))

macro "inv_all" h:ident : tactic =>
  `(tactic| (obtain ⟨h1, h2, h3, h4, h5, h6, h7, h8, h9, h10, h11, h12, h13, h14, h15, h16, h17, h18⟩ := $h
             refine ⟨?_, ?_, ?_, ?_, ?_, ?_, ?_, ?_, ?_, ?_, ?_, ?_, ?_, ?_, ?_, ?_, ?_, ?_⟩ <;> inv_field))

variable {wr : Nat → Bool} {s : State} {i : Nat}

/-- a task returns with something that is not a location -/
theorem inv_plain (h : Inv wr s) (r : Res) (hr : ∀ c, r ≠ .ok c) (hd : r ≠ .dangling) :
    Inv wr (setPc s i (.done r)) := by
  simp only [setPc]; inv_all h

/-- a task returns the final location -/
theorem inv_ok (h : Inv wr s) (c : Nat) (hc : s.final = some c) (hw : wr i = true → c = i) :
    Inv wr (setPc s i (.done (.ok c))) := by
  simp only [setPc]; inv_all h

theorem inv_ret (h : Inv wr s) (hfin : s.final.isSome = true) (hw : ∀ c, wr i = true → s.final = some c → c = i) :
    Inv wr (setPc s i (.done (retFinal s))) := by
  obtain ⟨c, hc⟩ := Option.isSome_iff_exists.mp hfin
  simp only [retFinal, hc]
  exact inv_ok h c hc (fun hwi => hw c hwi hc)

/-- a reader moves on to a call that carries no obligations -/
theorem inv_fb1 (h : Inv wr s) (hpc : isReaderPc (s.pcs i) = true) : Inv wr (setPc s i .fb1) := by
  simp only [setPc]; inv_all h
theorem inv_fb2 (h : Inv wr s) (hpc : isReaderPc (s.pcs i) = true) : Inv wr (setPc s i .fb2) := by
  simp only [setPc]; inv_all h
theorem inv_fbV1 (h : Inv wr s) (hpc : isReaderPc (s.pcs i) = true) : Inv wr (setPc s i .fbV1) := by
  simp only [setPc]; inv_all h
theorem inv_lList (h : Inv wr s) (hpc : isReaderPc (s.pcs i) = true) (k : Nat) : Inv wr (setPc s i (.lList k)) := by
  simp only [setPc]; inv_all h

theorem inv_backfill (h : Inv wr s) (hpc : isReaderPc (s.pcs i) = true) (hfin : s.final.isSome = true) :
    Inv wr (setPc s i .backfill) := by
  simp only [setPc]; inv_all h

theorem inv_headS (h : Inv wr s) (hpc : isReaderPc (s.pcs i) = true) (w : Nat) (hreg : s.reg = some w) :
    Inv wr (setPc s i (.headS w)) := by
  simp only [setPc]; inv_all h

/- writer -/
theorem inv_wPut_lost (h : Inv wr s) (hpc : s.pcs i = .wPut) :
    Inv wr (setPc { s with staging := upd s.staging i true } i (.done .err)) := by
  simp only [setPc]; inv_all h

theorem inv_wPut_ok (h : Inv wr s) (hpc : s.pcs i = .wPut) :
    Inv wr (setPc { s with staging := upd s.staging i true } i .wExt) := by
  simp only [setPc]; inv_all h

theorem inv_wExt_err (h : Inv wr s) (hpc : s.pcs i = .wExt) : Inv wr (setPc s i .wChk) := by
  simp only [setPc]; inv_all h

theorem inv_wExt_lost (h : Inv wr s) (hpc : s.pcs i = .wExt) :
    Inv wr (setPc (registerStaging s i) i .wChk) := by
  unfold registerStaging
  split
  · simp only [setPc]; inv_all h
  · exact inv_wExt_err h hpc

theorem inv_wExt_ok (h : Inv wr s) (hpc : s.pcs i = .wExt) (hext : s.ext = none) (b : Bool) :
    Inv wr (setPc (registerStaging s i) i (.copy i b)) := by
  simp only [setPc, registerStaging, hext]; inv_all h

theorem inv_wChk_won (h : Inv wr s) (hpc : s.pcs i = .wChk) (hext : s.ext = some (.staging i)) (b : Bool) :
    Inv wr (setPc s i (.copy i b)) := by
  simp only [setPc]; inv_all h

theorem inv_wChk_lost (h : Inv wr s) (hpc : s.pcs i = .wChk) (hext : s.ext ≠ some (.staging i)) :
    Inv wr (setPc s i .wCleanup) := by
  simp only [setPc]; inv_all h

theorem inv_wCleanup (h : Inv wr s) (hpc : s.pcs i = .wCleanup) (r : Res) (hr : r = .err ∨ r = .conflict) :
    Inv wr (setPc { s with staging := upd s.staging i false } i (.done r)) := by
  simp only [setPc]
  rcases hr with rfl | rfl <;> inv_all h

/- finalize_manifest -/
theorem inv_headS_ok (h : Inv wr s) (w : Nat) (hpc : s.pcs i = .headS w) :
    Inv wr (setPc s i (.copy w false)) := by
  simp only [setPc]; inv_all h

theorem inv_copy_lost (h : Inv wr s) (w : Nat) (b : Bool) (hpc : s.pcs i = .copy w b) :
    Inv wr (setPc (copyEff s w) i (.done .err)) := by
  unfold copyEff
  split
  · simp only [setPc]; inv_all h
  · exact inv_plain h .err (by simp) (by simp)

theorem inv_copy_head (h : Inv wr s) (w : Nat) (b : Bool) (hpc : s.pcs i = .copy w b) (hs : s.staging w = true) :
    Inv wr (setPc (copyEff s w) i (.headF w true)) := by
  simp only [setPc, copyEff, hs, if_true]; inv_all h

theorem inv_copy_flip (h : Inv wr s) (w : Nat) (b : Bool) (hpc : s.pcs i = .copy w b) (hs : s.staging w = true) :
    Inv wr (setPc (copyEff s w) i (.flip w)) := by
  simp only [setPc, copyEff, hs, if_true]; inv_all h

theorem inv_copy_missing (h : Inv wr s) (w : Nat) (b : Bool) (hpc : s.pcs i = .copy w b) :
    Inv wr (setPc s i (.headF w false)) := by
  simp only [setPc]; inv_all h

theorem inv_headF_flip (h : Inv wr s) (w : Nat) (hpc : s.pcs i = .headF w true) :
    Inv wr (setPc s i (.flip w)) := by
  simp only [setPc]; inv_all h

theorem inv_flip_lost (h : Inv wr s) (w : Nat) (hpc : s.pcs i = .flip w) :
    Inv wr (setPc (flipEff s) i (.done .err)) := by
  unfold flipEff
  split
  · simp only [setPc]; inv_all h
  · exact inv_plain h .err (by simp) (by simp)

theorem inv_flip_ok (h : Inv wr s) (w : Nat) (hpc : s.pcs i = .flip w) :
    Inv wr (setPc (flipEff s) i (.del w)) := by
  unfold flipEff
  split
  · simp only [setPc]; inv_all h
  · -- unreachable: a finaliser at `flip` implies the slot is registered
    simp only [setPc]; inv_all h

theorem inv_del_lost (h : Inv wr s) (w : Nat) (hpc : s.pcs i = .del w) :
    Inv wr (setPc { s with staging := upd s.staging w false } i (.done .err)) := by
  simp only [setPc]; inv_all h

theorem inv_del_ok (h : Inv wr s) (w : Nat) (hpc : s.pcs i = .del w) :
    Inv wr (setPc { s with staging := upd s.staging w false } i (.done (retFinal s))) := by
  have hf := (h.delHas i w hpc).2
  have hwo := h.writerOwn i w
  simp only [retFinal, hf, setPc]
  simp only [hpc, finOn] at hwo
  inv_all h

end LanceModel.C10
