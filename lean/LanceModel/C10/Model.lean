/-!
C10 — external manifest store protocol, ONE version slot `v` of one table.

Labelled transition system.  Unboundedly many tasks `i : Nat`; task `i` is a writer
(`ExternalManifestCommitHandler::commit` for version `v`, its staging manifest has content id `i`),
a version reader (`resolve_version_location(v)`) or a latest reader (`resolve_latest_location`).
One global step = ONE call into the object store or into the external manifest store made by one
task, together with a fault decision for that call.  A crash is a task that is never scheduled
again.  Source: rust/lance-table/src/io/commit/external_manifest.rs (+ `default_resolve_version`,
`current_manifest_path` in rust/lance-table/src/io/commit.rs).

Object store (restricted to `_versions/` of the slot): `staging w` exists? / content of the final
path.  External store: the slot's entry (`none`, a staging path, the final path).  `reg` is the
history of the slot needed for stale reads: the staging id that was registered first.
-/
namespace LanceModel.C10

/-- value of the external store entry for `(base, v)` -/
inductive Loc | staging (w : Nat) | final
deriving DecidableEq, Repr

/-- decision for one released call.  `staleNone` / `staleReg`: an eventually consistent read of the
    external store answers with an OLDER value of the slot (no entry / the first registered staging
    path); on calls that are not reads of the external store they behave like `none`. -/
inductive Fault | none | failBefore | lostResponse | staleNone | staleReg
deriving DecidableEq, Repr

/-- what a task returned.  `ok c`: a manifest location whose content (read at return time) is `c`;
    `dangling`: a location at which no object exists. -/
inductive Res | ok (c : Nat) | dangling | conflict | notFound | err
deriving DecidableEq, Repr

/-- program counter = the next storage call of the task -/
inductive Pc
  /- commit -/
  | wPut                          -- manifest_writer: put staging_i
  | wExt                          -- ext.put_if_not_exists(v, staging_i)
  | wChk                          -- (fix) ext.get(v) after put_if_not_exists reported an error
  | wCleanup                      -- delete staging_i, report CommitConflict
  /- resolve_version_location / resolve_latest_location -/
  | rGet                          -- ext.get(v)            (get_manifest_location)
  | lGet                          -- ext.get_latest        (get_latest_manifest_location)
  | headS (w : Nat)               -- head staging_w (entry had no size)
  | fb1                           -- default_resolve_version: head final (V2 path)
  | fb2                           -- resolve_version_location: head of the path found
  | fbV1                          -- … head of the V1 path (never exists here)
  | backfill                      -- ext.put_if_not_exists(v, final), result ignored
  | lList (k : Nat)               -- current_manifest_path: list _versions (ListRetryStream: k retries used, at most 5)
  /- finalize_manifest(staging_w) -/
  | copy (w : Nat) (hd : Bool)    -- copy staging_w → final; hd: size ≥ 5 MiB (head final even if copied)
  | headF (w : Nat) (copied : Bool) -- head final
  | flip (w : Nat)                -- ext.put_if_exists(v, final)
  | del (w : Nat)                 -- delete staging_w
  | done (r : Res)
deriving DecidableEq, Repr

structure State where
  staging : Nat → Bool             -- staging object of writer w exists (its content is w)
  final : Option Nat               -- content of the final path `_versions/<v>.manifest`
  ext : Option Loc                 -- external store entry of the slot
  reg : Option Nat                 -- first staging id ever registered in the slot
  pcs : Nat → Pc

structure Cfg where
  /-- `commit` re-reads the slot when `put_if_not_exists` reported an error (the `fix:` commit).
      `false` is the code before the fix. -/
  confirm : Bool := true
  /-- writers' manifests are ≥ 5 MiB -/
  big : Bool := false
deriving DecidableEq, Repr

def upd {α} (f : Nat → α) (i : Nat) (v : α) : Nat → α := fun j => if j = i then v else f j

theorem upd_apply {α} (f : Nat → α) (i j : Nat) (v : α) : upd f i v j = if j = i then v else f j := rfl

/-- the location `final` as seen by the caller: its content at return time -/
def retFinal (s : State) : Res :=
  match s.final with
  | some c => .ok c
  | none => .dangling

/-- answer of a read of the slot under fault `f` (`ExternalManifestStore::get` / `get_latest_version`) -/
def extRead (s : State) (f : Fault) : Option Loc :=
  match f with
  | .staleNone => none
  | .staleReg =>
    match s.reg with
    | some w => some (.staging w)
    | none => s.ext
  | _ => s.ext

/-- effect of `put_if_not_exists(v, staging_i)` -/
def registerStaging (s : State) (i : Nat) : State :=
  match s.ext with
  | none => { s with ext := some (.staging i), reg := some i }
  | some _ => s

/-- effect of `put_if_not_exists(v, final)` (reader back-fill) -/
def registerFinal (s : State) : State :=
  match s.ext with
  | none => { s with ext := some .final }
  | some _ => s

/-- effect of `copy staging_w → final` (object_store copy overwrites) -/
def copyEff (s : State) (w : Nat) : State :=
  if s.staging w then { s with final := some w } else s

/-- effect of `put_if_exists(v, final)` -/
def flipEff (s : State) : State :=
  match s.ext with
  | some _ => { s with ext := some .final }
  | none => s

def setPc (s : State) (i : Nat) (pc : Pc) : State := { s with pcs := upd s.pcs i pc }

/-- where `commit` goes when `put_if_not_exists` reported an error -/
def afterPutError (cfg : Cfg) : Pc := if cfg.confirm then .wChk else .wCleanup

/-- One step of task `i` with fault `f`.
    Counterparts: `.wPut … .wCleanup` = `ExternalManifestCommitHandler::commit`;
    `.rGet, .headS, .fb1, .fb2, .fbV1, .backfill` = `resolve_version_location` (+ `default_resolve_version`);
    `.lGet, .headS, .lList` = `resolve_latest_location` (+ `current_manifest_path`);
    `.copy, .headF, .flip, .del` = `finalize_manifest`. -/
def step (cfg : Cfg) (s : State) (i : Nat) (f : Fault) : State :=
  match s.pcs i with
  | .wPut =>
    match f with
    | .failBefore => setPc s i (.done .err)
    | .lostResponse => setPc { s with staging := upd s.staging i true } i (.done .err)
    | _ => setPc { s with staging := upd s.staging i true } i .wExt
  | .wExt =>
    match f with
    | .failBefore => setPc s i (afterPutError cfg)
    | .lostResponse => setPc (registerStaging s i) i (afterPutError cfg)
    | _ =>
      match s.ext with
      | none => setPc (registerStaging s i) i (.copy i cfg.big)
      | some _ => setPc s i (afterPutError cfg)
  | .wChk =>
    match f with
    | .failBefore => setPc s i (.done .err)      -- outcome unknown: staging is kept
    | .lostResponse => setPc s i (.done .err)
    | _ =>
      match extRead s f with
      | some (.staging w) => if w = i then setPc s i (.copy i cfg.big) else setPc s i .wCleanup
      | _ => setPc s i .wCleanup
  | .wCleanup =>
    match f with
    | .failBefore => setPc s i (.done .err)
    | .lostResponse => setPc { s with staging := upd s.staging i false } i (.done .err)
    | _ => setPc { s with staging := upd s.staging i false } i (.done .conflict)
  | .rGet =>
    match f with
    | .failBefore => setPc s i (.done .err)
    | .lostResponse => setPc s i (.done .err)
    | _ =>
      match extRead s f with
      | none => setPc s i .fb1
      | some .final => setPc s i (.done (retFinal s))
      | some (.staging w) => setPc s i (.headS w)
  | .lGet =>
    match f with
    | .failBefore => setPc s i (.done .err)
    | .lostResponse => setPc s i (.done .err)
    | _ =>
      match extRead s f with
      | none => setPc s i (.lList 0)
      | some .final => setPc s i (.done (retFinal s))
      | some (.staging w) => setPc s i (.headS w)
  | .headS w =>
    match f with
    | .failBefore => setPc s i (.done .err)
    | .lostResponse => setPc s i (.done .err)
    | _ => if s.staging w then setPc s i (.copy w false) else setPc s i (.done .err)
  | .fb1 =>
    match f with
    | .failBefore => setPc s i (.done .notFound)   -- `.map_err(|_| NotFound)`
    | .lostResponse => setPc s i (.done .notFound)
    | _ => if s.final.isSome then setPc s i .fb2 else setPc s i .fbV1
  | .fb2 =>
    match f with
    | .failBefore => setPc s i (.done .err)
    | .lostResponse => setPc s i (.done .err)
    | _ => if s.final.isSome then setPc s i .backfill else setPc s i (.done .notFound)
  | .fbV1 =>
    match f with
    | .failBefore => setPc s i (.done .err)
    | .lostResponse => setPc s i (.done .err)
    | _ => setPc s i (.done .notFound)
  | .backfill =>
    match f with
    | .failBefore => setPc s i (.done (retFinal s))  -- the error is only logged
    | _ => setPc (registerFinal s) i (.done (retFinal s))
  | .lList k =>
    match f with
    | .failBefore => if k < 5 then setPc s i (.lList (k + 1)) else setPc s i (.done .err)
    | .lostResponse => if k < 5 then setPc s i (.lList (k + 1)) else setPc s i (.done .err)
    | _ =>
      match s.final with
      | some c => setPc s i (.done (.ok c))
      | none => setPc s i (.done .notFound)
  | .copy w hd =>
    match f with
    | .failBefore => setPc s i (.done .err)
    | .lostResponse => setPc (copyEff s w) i (.done .err)
    | _ =>
      if s.staging w then
        (if hd then setPc (copyEff s w) i (.headF w true) else setPc (copyEff s w) i (.flip w))
      else setPc s i (.headF w false)
  | .headF w copied =>
    match f with
    | .failBefore => setPc s i (.done .err)
    | .lostResponse => setPc s i (.done .err)
    | _ =>
      if s.final.isSome then
        (if copied then setPc s i (.flip w) else setPc s i (.done (retFinal s)))
      else setPc s i (.done .err)
  | .flip w =>
    match f with
    | .failBefore => setPc s i (.done .err)
    | .lostResponse => setPc (flipEff s) i (.done .err)
    | _ =>
      match s.ext with
      | some _ => setPc (flipEff s) i (.del w)
      | none => setPc s i (.done .err)
  | .del w =>
    match f with
    | .failBefore => setPc s i (.done .err)
    | .lostResponse => setPc { s with staging := upd s.staging w false } i (.done .err)
    | _ => setPc { s with staging := upd s.staging w false } i (.done (retFinal s))
  | .done _ => s

def run (cfg : Cfg) (s : State) : List (Nat × Fault) → State
  | [] => s
  | (i, f) :: rest => run cfg (step cfg s i f) rest

/-- task roles -/
inductive Role | writer | reader | latest
deriving DecidableEq, Repr

def startPc : Role → Pc
  | .writer => .wPut
  | .reader => .rGet
  | .latest => .lGet

/-- empty slot: nothing staged, nothing registered -/
def init (roles : Nat → Role) : State :=
  { staging := fun _ => false, final := none, ext := none, reg := none,
    pcs := fun i => startPc (roles i) }

end LanceModel.C10
