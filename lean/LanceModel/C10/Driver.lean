import LanceModel.Util
import LanceModel.C10.Model
/-
C10 driver: replays a schedule (`cfg`, `s <task> <fault>`, `c <task>`, `end`, `pv`, `pl`) on the LTS of
Model.lean and prints, after every line, the released call and the whole state in the harness's canonical
form:  `<what> | ext=<-|S<i>|F> | objs=<S…,F:<content>> | t0=<next call or =result> …`.
-/
namespace LanceModel.C10.Driver
open LanceModel.Util LanceModel.C10

structure DS where
  cfgd : Bool
  cfg : Cfg
  s : State
  n : Nat                 -- number of tasks spawned so far
  crashed : List Nat

def initDS : DS :=
  { cfgd := false, cfg := {}, s := init (fun _ => .reader), n := 0, crashed := [] }

def showRes : Res → String
  | .ok c => "=ok:" ++ toString c
  | .dangling => "=dangling"
  | .conflict => "=conflict"
  | .notFound => "=notfound"
  | .err => "=err"

/-- descriptor of the call task `i` is parked at -/
def showPc (i : Nat) : Pc → String
  | .wPut => "os.put S" ++ toString i
  | .wExt => "ext.pine S" ++ toString i
  | .wChk => "ext.get"
  | .wCleanup => "os.delete S" ++ toString i
  | .rGet => "ext.get"
  | .lGet => "ext.latest"
  | .headS w => "os.head S" ++ toString w
  | .fb1 => "os.head F"
  | .fb2 => "os.head F"
  | .fbV1 => "os.head F1"
  | .backfill => "ext.pine F"
  | .lList _ => "os.list"
  | .copy w _ => "os.copy S" ++ toString w ++ " F"
  | .headF _ _ => "os.head F"
  | .flip _ => "ext.pie F"
  | .del w => "os.delete S" ++ toString w
  | .done r => showRes r

def showLoc : Option Loc → String
  | none => "-"
  | some (.staging w) => "S" ++ toString w
  | some .final => "F"

def underscore (s : String) : String := s.map (fun c => if c = ' ' then '_' else c)

def dump (d : DS) : String :=
  let ids := List.range d.n
  let st := (ids.filter (fun w => d.s.staging w)).map (fun w => "S" ++ toString w)
  let fin := match d.s.final with
    | some c => ["F:" ++ toString c]
    | none => []
  let objs := st ++ fin
  let ts := ids.map (fun t =>
    "t" ++ toString t ++ "=" ++
      (if d.crashed.contains t then "crashed" else underscore (showPc t (d.s.pcs t))))
  "ext=" ++ showLoc d.s.ext ++ " | objs=" ++ (if objs.isEmpty then "-" else ",".intercalate objs) ++
    " | " ++ (if ts.isEmpty then "-" else " ".intercalate ts)

def parseFault : String → Option (Fault × String)
  | "ok" => some (.none, "ok")
  | "none" => some (.none, "ok")
  | "fb" => some (.failBefore, "fb")
  | "lr" => some (.lostResponse, "lr")
  | "alt0" => some (.staleNone, "alt0")
  | "alt1" => some (.staleReg, "alt1")
  | _ => none

def isDone : Pc → Bool
  | .done _ => true
  | _ => false

def live (d : DS) (t : Nat) : Bool :=
  t < d.n && !d.crashed.contains t && !isDone (d.s.pcs t)

def roleOf (nw nr : Nat) (i : Nat) : Role :=
  if i < nw then .writer else if i < nw + nr then .reader else .latest

def step (d : DS) (line : String) : DS × String :=
  match splitTokens line with
  | ["cfg", a, b, c, g] =>
    if d.cfgd then (d, "bad") else
    match a.toNat?, b.toNat?, c.toNat?, g.toNat? with
    | some nw, some nr, some nl, some big =>
      if nw + nr + nl ≤ 8 ∧ big ≤ 1 then
        let d' : DS := { cfgd := true, cfg := { confirm := true, big := big == 1 },
                         s := init (roleOf nw nr), n := nw + nr + nl, crashed := [] }
        (d', "init | " ++ dump d')
      else (d, "bad")
    | _, _, _, _ => (d, "bad")
  | ["s", t, f] =>
    if !d.cfgd then (d, "bad") else
    match t.toNat?, parseFault f with
    | some t, some (f, tok) =>
      if live d t then
        let desc := showPc t (d.s.pcs t)
        let d' := { d with s := LanceModel.C10.step d.cfg d.s t f }
        (d', toString t ++ " " ++ tok ++ " " ++ desc ++ " | " ++ dump d')
      else (d, "noop | " ++ dump d)
    | _, _ => (d, "bad")
  | ["c", t] =>
    if !d.cfgd then (d, "bad") else
    match t.toNat? with
    | some t =>
      if live d t then
        let d' := { d with crashed := t :: d.crashed }
        (d', "crash " ++ toString t ++ " | " ++ dump d')
      else (d, "noop | " ++ dump d)
    | none => (d, "bad")
  | ["end"] =>
    if !d.cfgd then (d, "bad") else
    let d' := { d with crashed := (List.range d.n).filter (fun t => d.crashed.contains t || live d t) }
    (d', "end | " ++ dump d')
  | [p] =>
    if !d.cfgd || !(p = "pv" || p = "pl") || !(d.n < 64) then (d, "bad") else
    let t := d.n
    let s0 := setPc d.s t (if p = "pv" then .rGet else .lGet)
    let s1 := run d.cfg s0 (List.replicate 12 (t, Fault.none))
    let d' := { d with s := s1, n := d.n + 1 }
    (d', "probe " ++ underscore (showPc t (s1.pcs t)) ++ " | " ++ dump d')
  | _ => (d, "bad")

end LanceModel.C10.Driver
