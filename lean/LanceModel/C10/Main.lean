import LanceModel.C10.Driver
def main : IO Unit := LanceModel.Util.runDriver LanceModel.C10.Driver.step LanceModel.C10.Driver.initDS
