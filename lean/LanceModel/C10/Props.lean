import LanceModel.C10.Step
/-!
C10 — External manifest store protocol keeps versions unique, durable and portable.

"With an external manifest store, each version number maps to exactly one manifest content for all
readers and writers, a version whose commit returned success is never lost, and any writer crash
between staging, external commit and finalisation is repaired by later readers to the same content
at the standard manifest path."

All theorems quantify over ALL role assignments (any number of writers, version readers and latest
readers of one version slot) and ALL schedules `List (Nat × Fault)`: every interleaving of the
individual storage calls, each call executed, failed before execution, executed with a lost response,
or (reads of the external store by readers) answered with a stale value; a crash is a task that is
never scheduled again, so every prefix of every schedule is covered.
-/
namespace LanceModel.C10

def isW (roles : Nat → Role) : Nat → Bool := fun i => roles i == .writer

/-- states reachable from the empty slot; stale answers of the external store only go to readers
    (`ExternalManifestStore` documents read-after-write consistency for the committer itself) -/
def Reachable (cfg : Cfg) (roles : Nat → Role) (s : State) : Prop :=
  ∃ sched, ReadYourWrites (isW roles) sched ∧ s = run cfg (init roles) sched

/-- at most one content is ever handed out for the version, and no handed-out location dangles -/
def Unique (s : State) : Prop :=
  (∀ i j c d, s.pcs i = .done (.ok c) → s.pcs j = .done (.ok d) → c = d) ∧ (∀ i, s.pcs i ≠ .done .dangling)

/-- a commit that returned success committed its own manifest, and in every later state the final
    manifest is that content and every task that resolves the version gets that content -/
def Durable (cfg : Cfg) (roles : Nat → Role) (s : State) : Prop :=
  ∀ i c, isW roles i = true → s.pcs i = .done (.ok c) →
    c = i ∧ ∀ sched, ReadYourWrites (isW roles) sched →
      (run cfg s sched).final = some i ∧ (run cfg s sched).ext ≠ none ∧
      ∀ j d, (run cfg s sched).pcs j = .done (.ok d) → d = i

/-- once a staging manifest is registered in the external store (the commit point), a reader that
    runs to completion repairs the slot: it returns the registered content, the final path holds it
    and the external store points at the final path — whatever the writer and other readers did or
    did not finish. -/
def Repairable (cfg : Cfg) (s : State) : Prop :=
  ∀ w, s.reg = some w → ∀ r, (s.pcs r = .rGet ∨ s.pcs r = .lGet) →
    (run cfg s (List.replicate 5 (r, Fault.none))).pcs r = .done (.ok w) ∧
    (run cfg s (List.replicate 5 (r, Fault.none))).final = some w ∧
    (run cfg s (List.replicate 5 (r, Fault.none))).ext = some .final

/-- the property at full strength -/
def C10_full (cfg : Cfg) : Prop :=
  ∀ roles s, Reachable cfg roles s → Unique s ∧ Durable cfg roles s ∧ Repairable cfg s

instance (wr : Nat → Bool) (sched : List (Nat × Fault)) : Decidable (ReadYourWrites wr sched) := by
  unfold ReadYourWrites; infer_instance

/-! ### invariant ⇒ the three parts -/

theorem inv_reachable {cfg : Cfg} (hc : cfg.confirm = true) {roles : Nat → Role} {s : State}
    (hr : Reachable cfg roles s) : Inv (isW roles) s := by
  obtain ⟨sched, hs, rfl⟩ := hr
  exact inv_run cfg hc sched hs (inv_init roles)

theorem unique_of_inv {wr : Nat → Bool} {s : State} (h : Inv wr s) : Unique s := by
  refine ⟨?_, h.noDangling⟩
  intro i j c d hi hj
  have := h.okHas i c hi
  have := h.okHas j d hj
  simp_all

@[simp] theorem setPc_final (s : State) (i : Nat) (pc : Pc) : (setPc s i pc).final = s.final := rfl
@[simp] theorem registerStaging_final (s : State) (i : Nat) : (registerStaging s i).final = s.final := by
  unfold registerStaging; split <;> rfl
@[simp] theorem registerFinal_final (s : State) : (registerFinal s).final = s.final := by
  unfold registerFinal; split <;> rfl
@[simp] theorem flipEff_final (s : State) : (flipEff s).final = s.final := by
  unfold flipEff; split <;> rfl

/-- a step changes the final manifest only by a copy from the staging object the task works on -/
theorem final_step (cfg : Cfg) (s : State) (i : Nat) (f : Fault) :
    (step cfg s i f).final = s.final ∨
      ∃ w b, s.pcs i = .copy w b ∧ (step cfg s i f).final = some w := by
  unfold step
  cases hpc : s.pcs i with
  | copy w b =>
    by_cases hs : s.staging w = true <;> cases f <;> simp only [] <;> (repeat' split) <;>
      simp_all [copyEff]
  | _ => cases f <;> simp only [] <;> (repeat' split) <;> simp

/-- `final_immutable`: once the final manifest of the version exists its content never changes,
    under every step of every task with every fault -/
theorem final_immutable {wr : Nat → Bool} {s : State} (h : Inv wr s) (cfg : Cfg) (i : Nat) (f : Fault) (c : Nat)
    (hc : s.final = some c) : (step cfg s i f).final = some c := by
  rcases final_step cfg s i f with h1 | ⟨w, b, hpc, h1⟩
  · rw [h1, hc]
  · have := final_of_fin (i := i) h w c (by simp [hpc, finOn]) hc
    rw [h1, this]

theorem final_immutable_run {wr : Nat → Bool} (cfg : Cfg) (hcf : cfg.confirm = true) (sched : List (Nat × Fault))
    {s : State} (hs : ReadYourWrites wr sched) (h : Inv wr s) (c : Nat) (hc : s.final = some c) :
    (run cfg s sched).final = some c := by
  induction sched generalizing s with
  | nil => exact hc
  | cons p rest ih =>
    obtain ⟨i, f⟩ := p
    simp only [run]
    apply ih
    · intro q hq; exact hs q (List.mem_cons_of_mem _ hq)
    · exact inv_step cfg hcf f (hs (i, f) List.mem_cons_self) h
    · exact final_immutable h cfg i f c hc

theorem durable_of_inv {cfg : Cfg} (hcf : cfg.confirm = true) {roles : Nat → Role} {s : State}
    (h : Inv (isW roles) s) : Durable cfg roles s := by
  intro i c hw hi
  have hci := h.writerOk i c hw hi
  subst hci
  refine ⟨rfl, ?_⟩
  intro sched hs
  have hfin := final_immutable_run cfg hcf sched hs h c (h.okHas c c hi)
  have h' := inv_run cfg hcf sched hs h
  refine ⟨hfin, ?_, ?_⟩
  · intro hext
    have h2 := h'.finalReg c hfin
    have h4 := h'.regExt c h2
    simp [hext] at h4
  · intro j d hj
    have := h'.okHas j d hj
    simp_all

/- fault-free steps of a reader / finaliser, one equation per call -/
section steps
variable (cfg : Cfg) {s : State} {i : Nat}

theorem step_rGet_staging {w : Nat} (hpc : s.pcs i = .rGet) (hext : s.ext = some (.staging w)) :
    step cfg s i .none = setPc s i (.headS w) := by
  unfold step; simp only [hpc, extRead, hext]
theorem step_lGet_staging {w : Nat} (hpc : s.pcs i = .lGet) (hext : s.ext = some (.staging w)) :
    step cfg s i .none = setPc s i (.headS w) := by
  unfold step; simp only [hpc, extRead, hext]
theorem step_rGet_final (hpc : s.pcs i = .rGet) (hext : s.ext = some .final) :
    step cfg s i .none = setPc s i (.done (retFinal s)) := by
  unfold step; simp only [hpc, extRead, hext]
theorem step_lGet_final (hpc : s.pcs i = .lGet) (hext : s.ext = some .final) :
    step cfg s i .none = setPc s i (.done (retFinal s)) := by
  unfold step; simp only [hpc, extRead, hext]
theorem step_headS_ok {w : Nat} (hpc : s.pcs i = .headS w) (hst : s.staging w = true) :
    step cfg s i .none = setPc s i (.copy w false) := by
  unfold step; simp only [hpc, hst, if_true]
theorem step_copy_ok {w : Nat} (hpc : s.pcs i = .copy w false) (hst : s.staging w = true) :
    step cfg s i .none = setPc { s with final := some w } i (.flip w) := by
  unfold step; simp [hpc, hst, copyEff]
theorem step_flip_ok {w : Nat} {l : Loc} (hpc : s.pcs i = .flip w) (hext : s.ext = some l) :
    step cfg s i .none = setPc { s with ext := some .final } i (.del w) := by
  unfold step; simp only [hpc, hext, flipEff]
theorem step_del_ok {w : Nat} (hpc : s.pcs i = .del w) :
    step cfg s i .none = setPc { s with staging := upd s.staging w false } i (.done (retFinal s)) := by
  unfold step; simp only [hpc]
theorem step_done {r : Res} {f : Fault} (hpc : s.pcs i = .done r) : step cfg s i f = s := by
  unfold step; simp only [hpc]
end steps

theorem setPc_pcs_self (s : State) (i : Nat) (pc : Pc) : (setPc s i pc).pcs i = pc := by
  simp [setPc, upd_apply]

/-- five fault-free steps of a reader from a slot that points at an existing staging manifest -/
theorem repair_from_staging (cfg : Cfg) (s : State) (r w : Nat) (hr : s.pcs r = .rGet ∨ s.pcs r = .lGet)
    (hext : s.ext = some (.staging w)) (hst : s.staging w = true) :
    (run cfg s (List.replicate 5 (r, Fault.none))).pcs r = .done (.ok w) ∧
    (run cfg s (List.replicate 5 (r, Fault.none))).final = some w ∧
    (run cfg s (List.replicate 5 (r, Fault.none))).ext = some .final := by
  have e1 : step cfg s r .none = setPc s r (.headS w) := by
    rcases hr with hr | hr
    · exact step_rGet_staging cfg hr hext
    · exact step_lGet_staging cfg hr hext
  simp only [List.replicate, run, e1]
  rw [step_headS_ok cfg (setPc_pcs_self _ _ _) (by simpa [setPc] using hst)]
  rw [step_copy_ok cfg (setPc_pcs_self _ _ _) (by simpa [setPc] using hst)]
  rw [step_flip_ok cfg (l := .staging w) (setPc_pcs_self _ _ _) (by simpa [setPc] using hext)]
  rw [step_del_ok cfg (setPc_pcs_self _ _ _)]
  simp [setPc, upd_apply, retFinal]

theorem repair_from_final (cfg : Cfg) (s : State) (r c : Nat) (hr : s.pcs r = .rGet ∨ s.pcs r = .lGet)
    (hext : s.ext = some .final) (hc : s.final = some c) :
    (run cfg s (List.replicate 5 (r, Fault.none))).pcs r = .done (.ok c) ∧
    (run cfg s (List.replicate 5 (r, Fault.none))).final = some c ∧
    (run cfg s (List.replicate 5 (r, Fault.none))).ext = some .final := by
  have e1 : step cfg s r .none = setPc s r (.done (.ok c)) := by
    rcases hr with hr | hr
    · rw [step_rGet_final cfg hr hext]; simp [retFinal, hc]
    · rw [step_lGet_final cfg hr hext]; simp [retFinal, hc]
  have hd : (setPc s r (.done (.ok c))).pcs r = .done (.ok c) := setPc_pcs_self _ _ _
  simp only [List.replicate, run, e1, step_done cfg hd]
  simp [setPc, upd_apply, hc, hext]

theorem repairable_of_inv {wr : Nat → Bool} {s : State} (cfg : Cfg) (h : Inv wr s) : Repairable cfg s := by
  intro w hreg r hr
  rcases h.regExt w hreg with hext | hext
  · exact repair_from_staging cfg s r w hr hext (h.regExists w hext).2
  · obtain ⟨c, hc⟩ := Option.isSome_iff_exists.mp (h.flipped hext)
    have h2 := h.finalReg c hc
    have hcw : c = w := by simp_all
    subst hcw
    exact repair_from_final cfg s r c hr hext hc

/-! ### the property theorems -/

/-- `ext_unique`: at most one content per version is ever observable through `resolve_version_location`,
    `resolve_latest_location` or a successful `commit`, in every reachable state. -/
theorem ext_unique (cfg : Cfg) (hc : cfg.confirm = true) (roles : Nat → Role) (s : State)
    (hr : Reachable cfg roles s) : Unique s :=
  unique_of_inv (inv_reachable hc hr)

/-- `success_durable`: a version whose commit returned success is never lost or replaced. -/
theorem success_durable (cfg : Cfg) (hc : cfg.confirm = true) (roles : Nat → Role) (s : State)
    (hr : Reachable cfg roles s) : Durable cfg roles s :=
  durable_of_inv hc (inv_reachable hc hr)

/-- `repair`: after the commit point a reader run to completion leaves the registered content at the
    standard path and the external store pointing at it, from every reachable state. -/
theorem repair (cfg : Cfg) (hc : cfg.confirm = true) (roles : Nat → Role) (s : State)
    (hr : Reachable cfg roles s) : Repairable cfg s :=
  repairable_of_inv cfg (inv_reachable hc hr)

/-- the external store entry never dangles: what it names exists (so the version can always be opened) -/
theorem entry_never_dangles (cfg : Cfg) (hc : cfg.confirm = true) (roles : Nat → Role) (s : State)
    (hr : Reachable cfg roles s) :
    (∀ w, s.ext = some (.staging w) → s.staging w = true) ∧ (s.ext = some .final → s.final.isSome = true) := by
  have h := inv_reachable hc hr
  exact ⟨fun w hw => (h.regExists w hw).2, h.flipped⟩

/-- nothing is visible before the commit point: without a registered entry there is no final manifest -/
theorem nothing_before_commit_point (cfg : Cfg) (hc : cfg.confirm = true) (roles : Nat → Role) (s : State)
    (hr : Reachable cfg roles s) (hreg : s.ext = none) : s.final = none ∧ ∀ i c, s.pcs i ≠ .done (.ok c) := by
  have h := inv_reachable hc hr
  have hfin : s.final = none := by
    cases hf : s.final with
    | none => rfl
    | some c =>
      have h2 := h.finalReg c hf
      have h4 := h.regExt c h2
      simp [hreg] at h4
  refine ⟨hfin, ?_⟩
  intro i c hi
  have := h.okHas i c hi
  simp [hfin] at this

/-- C10 at full strength for the code as it is now (with the `fix:` commit), for small and for ≥ 5 MiB manifests -/
theorem c10_full (big : Bool) : C10_full { confirm := true, big := big } := by
  intro roles s hr
  exact ⟨ext_unique _ rfl roles s hr, success_durable _ rfl roles s hr, repair _ rfl roles s hr⟩

/-! ### what the unchanged code did (before the `fix:` commit), and why the consistency hypothesis is needed -/

def demoRoles : Nat → Role := fun i => if i = 1 then .reader else .writer

/-- writer 0: put staging; `put_if_not_exists` applied but the response is lost; (old code) delete staging -/
def lostSched : List (Nat × Fault) := [(0, .none), (0, .lostResponse), (0, .none)]

/-- before the fix: the external store keeps pointing at a deleted staging manifest -/
theorem lost_response_dangles_before_fix :
    (run { confirm := false } (init demoRoles) lostSched).ext = some (.staging 0) ∧
    (run { confirm := false } (init demoRoles) lostSched).staging 0 = false ∧
    (run { confirm := false } (init demoRoles) lostSched).final = none ∧
    (run { confirm := false } (init demoRoles) (lostSched ++ List.replicate 5 (1, .none))).pcs 1 = .done .err := by
  decide

/-- `C10_full` fails for the code before the fix (witness: one writer, one lost response, one reader) -/
theorem c10_counterexample_before_fix : ¬ C10_full { confirm := false } := by
  intro h
  have hr : Reachable { confirm := false } demoRoles (run { confirm := false } (init demoRoles) lostSched) :=
    ⟨lostSched, by decide, rfl⟩
  have h3 := (h demoRoles _ hr).2.2 0 (by decide) 1 (by decide)
  exact absurd h3.1 (by decide)

/-- with the fix the same schedule continues into finalisation and commits -/
theorem lost_response_commits_after_fix :
    (run {} (init demoRoles) (lostSched ++ [(0, .none), (0, .none), (0, .none)])).pcs 0 = .done (.ok 0) ∧
    (run {} (init demoRoles) (lostSched ++ [(0, .none), (0, .none), (0, .none)])).ext = some .final := by
  decide

/-- the hypothesis `ReadYourWrites` is necessary: if the writer's own confirm read is stale after a lost
    response, the fixed code still deletes a registered staging manifest -/
theorem stale_confirm_read_dangles :
    (run {} (init demoRoles) [(0, .none), (0, .lostResponse), (0, .staleNone), (0, .none)]).ext = some (.staging 0) ∧
    (run {} (init demoRoles) [(0, .none), (0, .lostResponse), (0, .staleNone), (0, .none)]).staging 0 = false := by
  decide

/-! ### non-vacuity -/

/-- two writers race, writer 0 wins and finalises, writer 1 reports a conflict, a reader resolves content 0 -/
def raceSched : List (Nat × Fault) :=
  [(0, .none), (2, .none), (0, .none), (2, .none), (2, .none), (2, .none), (0, .none), (0, .none), (0, .none),
   (1, .none)]

example : Reachable {} demoRoles (run {} (init demoRoles) raceSched) := ⟨raceSched, by decide, rfl⟩
example : (run {} (init demoRoles) raceSched).pcs 0 = .done (.ok 0) ∧
    (run {} (init demoRoles) raceSched).pcs 2 = .done .conflict ∧
    (run {} (init demoRoles) raceSched).pcs 1 = .done (.ok 0) := by decide
/-- `Durable`'s premise is met (writer 0 returned success) -/
example : isW demoRoles 0 = true ∧ (run {} (init demoRoles) raceSched).pcs 0 = .done (.ok 0) := by decide
/-- `Repairable`'s premise is met by a writer that crashed right after the commit point, with reader 1 fresh -/
example : (run {} (init demoRoles) [(0, .none), (0, .none)]).reg = some 0 ∧
    (run {} (init demoRoles) [(0, .none), (0, .none)]).pcs 1 = .rGet ∧
    (run {} (init demoRoles) [(0, .none), (0, .none)]).final = none := by decide
/-- … and the repair really happens there -/
example : (run {} (init demoRoles) ([(0, .none), (0, .none)] ++ List.replicate 5 (1, .none))).final = some 0 := by decide
/-- a schedule with a stale read served to the reader satisfies `ReadYourWrites` -/
example : ReadYourWrites (isW demoRoles) [(0, .none), (0, .none), (1, .staleNone), (1, .staleReg)] := by decide
/-- `final_immutable`'s premise: a state with a final manifest and a second finaliser about to copy again -/
example : (run {} (init demoRoles) [(0, .none), (0, .none), (1, .none), (1, .none), (0, .none)]).final = some 0 ∧
    (run {} (init demoRoles) [(0, .none), (0, .none), (1, .none), (1, .none), (0, .none)]).pcs 1 = .copy 0 false := by decide

end LanceModel.C10
