import LanceModel.C10.Inv
/-!
C10 — the invariant holds initially and is preserved by every step of the fixed protocol
(`cfg.confirm = true`) under every fault, provided stale reads are only served to readers
(the external store is read-after-write consistent for the writer's own confirm read).
-/
namespace LanceModel.C10

variable {wr : Nat → Bool} {s : State} {i : Nat}

theorem inv_init (roles : Nat → Role) : Inv (fun i => roles i == .writer) (init roles) := by
  have key : ∀ j, ((init roles).pcs j = .wPut ∧ roles j = .writer) ∨
      ((init roles).pcs j = .rGet ∧ roles j = .reader) ∨ ((init roles).pcs j = .lGet ∧ roles j = .latest) := by
    intro j; cases h : roles j <;> simp [init, startPc, h]
  refine ⟨?_, ?_, ?_, ?_, ?_, ?_, ?_, ?_, ?_, ?_, ?_, ?_, ?_, ?_, ?_, ?_, ?_, ?_⟩ <;>
    first
    | (intro j; have hk := key j; intros; simp only [init] at *; grind [finOn, isWriterPc, isReaderPc])
    | (intros; simp_all [init])

theorem extRead_final (h : Inv wr s) (f : Fault) (he : extRead s f = some .final) : s.final.isSome = true := by
  have h3 := h.flipped
  have h5 := h.regNone
  cases f <;> simp only [extRead] at he <;> (try split at he) <;> simp_all

theorem extRead_staging (h : Inv wr s) (f : Fault) (w : Nat) (he : extRead s f = some (.staging w)) :
    s.reg = some w := by
  have h1 := h.regExists w
  cases f <;> simp only [extRead] at he <;> (try split at he) <;> simp_all

theorem reader_of_pc (h : Inv wr s) (hp : isReaderPc (s.pcs i) = true) : wr i = false := by
  have := h.writerNotR i
  cases hw : wr i <;> simp_all

theorem writer_of_pc (h : Inv wr s) (hp : isWriterPc (s.pcs i) = true) : wr i = true := by
  have := h.readerNotW i
  cases hw : wr i <;> simp_all

theorem final_of_fin (h : Inv wr s) (w c : Nat) (hfo : finOn (s.pcs i) = some w) (hc : s.final = some c) : c = w := by
  have h6 := h.finReg i w hfo
  have h2 := h.finalReg c hc
  simp_all

macro "plain" h:ident : tactic => `(tactic| (refine inv_plain $h _ ?_ ?_ <;> (simp; done)))

theorem inv_step (cfg : Cfg) (hc : cfg.confirm = true) (f : Fault) (hf : f.isStale = true → wr i = false)
    (h : Inv wr s) : Inv wr (step cfg s i f) := by
  unfold step
  cases hpc : s.pcs i with
  | wPut =>
    cases f <;> simp only [] <;>
      first | plain h | exact inv_wPut_lost h hpc | exact inv_wPut_ok h hpc
  | wExt =>
    have hap : afterPutError cfg = .wChk := by simp [afterPutError, hc]
    cases f <;> simp only [hap] <;> (try split) <;>
      first
      | exact inv_wExt_err h hpc
      | exact inv_wExt_lost h hpc
      | (rename_i hext; exact inv_wExt_ok h hpc hext _)
  | wChk =>
    have hw : wr i = true := writer_of_pc h (by simp [hpc, isWriterPc])
    cases f
    case failBefore => plain h
    case lostResponse => plain h
    case staleNone => simp [Fault.isStale, hw] at hf
    case staleReg => simp [Fault.isStale, hw] at hf
    case none =>
      simp only [extRead]
      split
      · rename_i w hext
        split
        · rename_i hwi; subst hwi; exact inv_wChk_won h hpc hext _
        · rename_i hwi; exact inv_wChk_lost h hpc (by simp [hext]; exact hwi)
      · rename_i hne
        exact inv_wChk_lost h hpc (by intro he; exact hne i he)
  | wCleanup =>
    cases f <;> simp only [] <;>
      first | plain h | exact inv_wCleanup h hpc _ (by simp)
  | rGet =>
    have hr : isReaderPc (s.pcs i) = true := by simp [hpc, isReaderPc]
    have hnw := reader_of_pc h hr
    cases f <;> simp only [] <;> (try split) <;>
      first
      | plain h
      | exact inv_fb1 h hr
      | (rename_i he; exact inv_ret h (extRead_final h _ he) (by simp [hnw]))
      | (rename_i w he; exact inv_headS h hr w (extRead_staging h _ w he))
  | lGet =>
    have hr : isReaderPc (s.pcs i) = true := by simp [hpc, isReaderPc]
    have hnw := reader_of_pc h hr
    cases f <;> simp only [] <;> (try split) <;>
      first
      | plain h
      | exact inv_lList h hr 0
      | (rename_i he; exact inv_ret h (extRead_final h _ he) (by simp [hnw]))
      | (rename_i w he; exact inv_headS h hr w (extRead_staging h _ w he))
  | headS w =>
    cases f <;> simp only [] <;> (try split) <;>
      first | plain h | exact inv_headS_ok h w hpc
  | fb1 =>
    have hr : isReaderPc (s.pcs i) = true := by simp [hpc, isReaderPc]
    cases f <;> simp only [] <;> (try split) <;>
      first | plain h | exact inv_fb2 h hr | exact inv_fbV1 h hr
  | fb2 =>
    have hr : isReaderPc (s.pcs i) = true := by simp [hpc, isReaderPc]
    cases f <;> simp only [] <;> (try split) <;>
      first | plain h | (rename_i hfin; exact inv_backfill h hr hfin)
  | fbV1 =>
    cases f <;> simp only [] <;> plain h
  | backfill =>
    have hr : isReaderPc (s.pcs i) = true := by simp [hpc, isReaderPc]
    have hnw := reader_of_pc h hr
    have hfin := h.fbHas i hpc
    have hreg : registerFinal s = s := by
      obtain ⟨c, hcf⟩ := Option.isSome_iff_exists.mp hfin
      have h2 := h.finalReg c hcf
      have h4 := h.regExt c h2
      unfold registerFinal
      rcases h4 with h4 | h4 <;> simp [h4]
    cases f <;> simp only [hreg] <;> exact inv_ret h hfin (by simp [hnw])
  | lList k =>
    have hr : isReaderPc (s.pcs i) = true := by simp [hpc, isReaderPc]
    have hnw := reader_of_pc h hr
    cases f <;> simp only [] <;> (try split) <;>
      first
      | plain h
      | exact inv_lList h hr _
      | (rename_i c hcf; exact inv_ok h c hcf (by simp [hnw]))
  | copy w hd =>
    cases f <;> simp only [] <;> (try split) <;> (try split) <;>
      first
      | plain h
      | exact inv_copy_lost h w hd hpc
      | (rename_i hs _; exact inv_copy_head h w hd hpc hs)
      | (rename_i hs _; exact inv_copy_flip h w hd hpc hs)
      | exact inv_copy_missing h w hd hpc
  | headF w copied =>
    have hfo : finOn (s.pcs i) = some w := by simp [hpc, finOn]
    cases f <;> simp only [] <;> (try split) <;> (try split) <;>
      first
      | plain h
      | (rename_i hcp; subst hcp; exact inv_headF_flip h w hpc)
      | (rename_i hfin _; exact inv_ret h hfin (fun c hwi hcf => by
            have := final_of_fin h w c hfo hcf
            have := h.writerOwn i w hwi hfo
            omega))
  | flip w =>
    cases f <;> simp only [] <;> (try split) <;>
      first | plain h | exact inv_flip_lost h w hpc | exact inv_flip_ok h w hpc
  | del w =>
    cases f <;> simp only [] <;>
      first | plain h | exact inv_del_lost h w hpc | exact inv_del_ok h w hpc
  | done r => exact h

/-- schedules in which stale answers of the external store are only given to readers -/
def ReadYourWrites (wr : Nat → Bool) (sched : List (Nat × Fault)) : Prop :=
  ∀ p ∈ sched, p.2.isStale = true → wr p.1 = false

theorem inv_run (cfg : Cfg) (hc : cfg.confirm = true) (sched : List (Nat × Fault))
    (hs : ReadYourWrites wr sched) (h : Inv wr s) : Inv wr (run cfg s sched) := by
  induction sched generalizing s with
  | nil => exact h
  | cons p rest ih =>
    obtain ⟨i, f⟩ := p
    simp only [run]
    apply ih
    · intro q hq; exact hs q (List.mem_cons_of_mem _ hq)
    · exact inv_step cfg hc f (hs (i, f) List.mem_cons_self) h

end LanceModel.C10
