import LanceModel.C21.Model
