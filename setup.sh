#!/bin/bash
# Build the whole framework offline from files on disk: Lean library + drivers, Rust harness (hooks on).
set -e
cd "$(dirname "$0")"
export CARGO_NET_OFFLINE=true
mods=$(python3 - <<'P'
import json,glob
out=[]
for f in sorted(glob.glob('props/C*.json')):
    p=json.load(open(f))
    out+=p.get('lean_modules',[])
    if p.get('driver'): out.append(p['driver'])
print(' '.join(dict.fromkeys(out)))
P
)
(cd lean && lake build $mods)
(cd harness && cargo build --offline --bins)
echo setup done
