#!/bin/bash
# Build the whole framework offline from files on disk: Lean library + drivers, Rust harness (hooks on).
# Each registered property is built on its own so that one broken property cannot take the others down;
# `./check Cxx` rebuilds what it needs anyway and reports a build failure as a broken tie of that property only.
cd "$(dirname "$0")"
export CARGO_NET_OFFLINE=true
mkdir -p .cache evidence replays
fail=0
python3 - > .cache/setup-targets.txt <<'P'
import json,glob
for f in sorted(glob.glob('props/C*.json')):
    p=json.load(open(f))
    print(p['id'], p.get('harness_bin') or '-', ' '.join(p.get('lean_modules',[]) + ([p['driver']] if p.get('driver') else [])))
P
# one cargo invocation for all bins first (shares the dependency build); fall back to per-bin on failure
bins=$(awk '$2!="-"{printf "--bin %s ", $2}' .cache/setup-targets.txt)
(cd harness && cargo build --offline $bins) || {
  while read -r id bin mods; do
    [ "$bin" = "-" ] || (cd harness && cargo build --offline --bin "$bin") || { echo "setup: harness bin $bin ($id) failed"; fail=1; }
  done < .cache/setup-targets.txt
}
while read -r id bin mods; do
  (cd lean && lake build $mods) || { echo "setup: lean targets of $id failed"; fail=1; }
done < .cache/setup-targets.txt
echo "setup done (fail=$fail)"
exit 0
